import Anything.Lemmas.C9QExamples
/-!
# C09 END TO END — temperature conversions as query TEXT

`Props/C09.lean` proves the temperature property for `Compound.factor` / `Compound.mul`. Here the
same clauses are proved for the text of a query, through the whole pipeline `Eval.query` (lexer,
parser, `eval::unit`, evaluator), for every admissible layout of blanks:

* `C09_query_convert` — `x <p><s> to <q><t>` for scales `s`, `t` ∈ {kelvin, `°C`, `°F`} in any of
  their table spellings (`K`, `kelvin`, `kelvins`, `°C`, `celsius`, `°F`, `fahrenheit`), any SI
  prefix literal in front (`Written`), any literal `x`: exactly one result, the value
  `fromK t (toK s (x·10^p)) / 10^q` in the unit `<q><t>`;
* `C09_query_formulas` — the six formulas spelled out (`x °C to K` answers `x + 273.15 K`, …);
* `C09_query_chain` — `((x s₀ to s₁) to s₂) … to sₙ` (also unparenthesised, any length) answers
  what the direct conversion `x s₀ to sₙ` answers; `C09_query_inverse`;
* `C09_query_refused`, `C09_query_refused_sum`, `C09_query_refused_product` (and the `_nested`
  forms for arbitrary operand expressions, `C09_query_refused_power` for `°C^k`) — a cast, a
  `+`/`-`, a `*`/`/` in which an offset scale occurs anywhere but alone with power one (for `*`,
  `/`: occurs at all, next to another quantity with a unit) answers a single ERROR
  (`conversionNotPossible`; `illegalCast` / `illegalOperation` when the dimensions differ as
  well), never a number;
* `C09_query_plain`, `C09_query_sum_lone` — where nothing is misused nothing is refused: a plain
  number next to a temperature, and sums of lone scales as the tool reads them;
* `C09_query_spec` — the answer of a conversion is `Spec.Quantity.inUnit` of the point
  `Spec.Quantity.denote false` reads;
* findings, pinned: `C09_finding_ccelsius`, `C09_finding_micro`, `C09_finding_cancel`,
  `C09_query_convert_unrestricted_fails`.

The proofs: `Lemmas/C9QEval.lean` (the evaluator on a tree that represents a quantity expression
answers a reference evaluation `evQ` built from the model's own `Compound.factor`/`mul`, for ANY
kind of unit — the theorems of `Props/QuantityQuery.lean` exclude offset scales), composed with
the lexer and parser theorems of `Props/QuantityQuery.lean`; `Lemmas/C9QUnits.lean` (the compound
of a written unit expression, entry by entry); `Lemmas/C9QTemp.lean` (spellings, `C09_convert`,
chains); `Lemmas/C9QRefuse.lean`, `Lemmas/C9QShapes.lean` (`C09_refuse_source/target`,
`C09_mul_refused`, which error); `Lemmas/C9QPlain.lean`; `Lemmas/C9QSpec.lean` (the specification's
point reading is `toK` / `fromK`).
-/

namespace Anything.Props.C09Query
open Anything Anything.Eval Anything.Spec Anything.Spec.Arith Anything.Spec.Decimal
open Anything.Spec.Quantity Anything.Spec.SI Anything.C06 Anything.QQ Anything.QQ.Ex Anything.C9Q Anything.C9Q.Ex
open Anything.Props.C09

/-! ## Conversions -/

/-- **C09 (query: one conversion).** For scales `s`, `t` ∈ {K, °C, °F} written in any table
spelling behind any SI-prefix literal (exponents `p`, `q`; `Written`), any literal `x` the number
reader accepts and any admissible layout, the text `x <p><s> to <q><t>` answers exactly one
result: the value `fromK t (toK s (x·10^p)) / 10^q` — through kelvin by the defining formulas
`K = C + 273.15`, `C = (F − 32)·5/9` — in the unit `<q><t>`, and no description. -/
theorem C09_query_convert (cfg : Cfg) (s t : TScale) (p q : Int) (t₁ t₂ : RTerm) (l : Literal)
    (ws : Layout) (h₁ : Written s p t₁) (h₂ : Written t q t₂) (hl : LitOKQ l)
    (hlay : QueryLayoutOKQ (convE l t₁ t₂) ws) :
    Eval.query cfg (renderQuery (convE l t₁ t₂) ws) =
      .ok ([.ok { value := fromK t (toK s (value l * (10 : Rat) ^ p)) / (10 : Rat) ^ q,
                  unit := cmp t q }], []) := by
  have h := query_evQ cfg (convE l t₁ t₂) ws (wfq_convE l t₁ t₂ (litOKQ_wf hl)) hlay
    (inScope_convE hl h₁ h₂)
  rw [evQ_convert cfg l h₁ h₂] at h
  exact h

/-- The admissible layouts of `C09_query_convert`, spelled out: the five blanks (before the
number, between number and unit — may be empty: `1°C` —, before `to`, after `to`, at the end)
hold white space only, and the two around `to` are not empty. -/
theorem C09_query_convert_layout (s t : TScale) (p q : Int) (t₁ t₂ : RTerm) (l : Literal)
    (h₁ : Written s p t₁) (h₂ : Written t q t₂) (hl : l.WF) (b0 b1 b2 b3 b4 : List Char) :
    QueryLayoutOKQ (convE l t₁ t₂) [b0, b1, b2, b3, b4] ↔
      Blank b0 ∧ Blank b1 ∧ Blank b2 ∧ Blank b3 ∧ Blank b4 ∧ b2 ≠ [] ∧ b3 ≠ [] :=
  layout_convE hl h₁ h₂ b0 b1 b2 b3 b4

/-- What `Written` gives: the specification resolves the word to this prefix and this scale, the
tool's unit-word parser reads it as exactly that, and the query lexer takes it as one word. -/
theorem C09_written (s : TScale) (pe : Int) (t : RTerm) (h : Written s pe t) :
    resolve t = some ⟨pe, key s, 1⟩ ∧ UnitWord.parseWord (word t) = some [(pe, key s)] ∧
      WordLit (word t) :=
  ⟨(written_facts h).1, (written_facts h).2.1, (written_facts h).2.2.1⟩

/-- **C09 (query: the six formulas)**, without prefixes, in any spelling of the scales:
`x °C to K` answers `x + 273.15 K`, `x K to °C` answers `x − 273.15 °C`, `x °F to °C` answers
`(x − 32)·5/9 °C`, `x °C to °F` answers `x·9/5 + 32 °F`, `x °F to K` answers
`(x − 32)·5/9 + 273.15 K`, `x K to °F` answers `(x − 273.15)·9/5 + 32 °F`. -/
theorem C09_query_formulas (cfg : Cfg) (l : Literal) (hl : LitOKQ l) (t₁ t₂ : RTerm) (ws : Layout)
    (hlay : QueryLayoutOKQ (convE l t₁ t₂) ws) :
    (Written .C 0 t₁ → Written .K 0 t₂ → Eval.query cfg (renderQuery (convE l t₁ t₂) ws) =
      .ok ([.ok { value := value l + 27315 / 100, unit := cmp .K 0 }], [])) ∧
    (Written .K 0 t₁ → Written .C 0 t₂ → Eval.query cfg (renderQuery (convE l t₁ t₂) ws) =
      .ok ([.ok { value := value l - 27315 / 100, unit := cmp .C 0 }], [])) ∧
    (Written .F 0 t₁ → Written .C 0 t₂ → Eval.query cfg (renderQuery (convE l t₁ t₂) ws) =
      .ok ([.ok { value := (value l - 32) * 5 / 9, unit := cmp .C 0 }], [])) ∧
    (Written .C 0 t₁ → Written .F 0 t₂ → Eval.query cfg (renderQuery (convE l t₁ t₂) ws) =
      .ok ([.ok { value := value l * 9 / 5 + 32, unit := cmp .F 0 }], [])) ∧
    (Written .F 0 t₁ → Written .K 0 t₂ → Eval.query cfg (renderQuery (convE l t₁ t₂) ws) =
      .ok ([.ok { value := (value l - 32) * 5 / 9 + 27315 / 100, unit := cmp .K 0 }], [])) ∧
    (Written .K 0 t₁ → Written .F 0 t₂ → Eval.query cfg (renderQuery (convE l t₁ t₂) ws) =
      .ok ([.ok { value := (value l - 27315 / 100) * 9 / 5 + 32, unit := cmp .F 0 }], [])) := by
  refine ⟨fun h₁ h₂ => ?_, fun h₁ h₂ => ?_, fun h₁ h₂ => ?_, fun h₁ h₂ => ?_, fun h₁ h₂ => ?_,
    fun h₁ h₂ => ?_⟩ <;>
  · rw [C09_query_convert cfg _ _ 0 0 t₁ t₂ l ws h₁ h₂ hl hlay]
    simp [fromK, toK]

/-! ## Chains -/

/-- **C09 (query: chains compose).** A chain of conversions written as text —
`((x s₀ to s₁) to s₂) … to sₙ`, with or without the parentheses, of any length (`TChain`) —
answers the value of the direct conversion from the first to the last scale, in the last unit. -/
theorem C09_query_chain (cfg : Cfg) (l : Literal) (s₀ s : TScale) (p₀ p : Int) (e : QExpr)
    (ws : Layout) (hc : TChain l s₀ p₀ e s p) (hl : LitOKQ l) (hlay : QueryLayoutOKQ e ws) :
    Eval.query cfg (renderQuery e ws) =
      .ok ([.ok { value := fromK s (toK s₀ (value l * (10 : Rat) ^ p₀)) / (10 : Rat) ^ p,
                  unit := cmp s p }], []) := by
  have h := query_evQ cfg e ws (wfq_chain hc (litOKQ_wf hl)) hlay (inScope_chain hc hl)
  rw [evQ_chain cfg hc] at h
  exact h

/-- **C09 (query: a chain ends where the direct conversion does)** — both as text. -/
theorem C09_query_chain_direct (cfg : Cfg) (l : Literal) (s₀ s : TScale) (p₀ p : Int) (e : QExpr)
    (t₀ tₙ : RTerm) (ws ws' : Layout) (hc : TChain l s₀ p₀ e s p) (h₀ : Written s₀ p₀ t₀)
    (hₙ : Written s p tₙ) (hl : LitOKQ l) (hlay : QueryLayoutOKQ e ws)
    (hlay' : QueryLayoutOKQ (convE l t₀ tₙ) ws') :
    Eval.query cfg (renderQuery e ws) = Eval.query cfg (renderQuery (convE l t₀ tₙ) ws') := by
  rw [C09_query_chain cfg l s₀ s p₀ p e ws hc hl hlay,
    C09_query_convert cfg s₀ s p₀ p t₀ tₙ l ws' h₀ hₙ hl hlay']

/-- Every chain has an admissible layout: the default one (one space at every blank position). -/
theorem C09_query_chain_layout (l : Literal) (s₀ s : TScale) (p₀ p : Int) (e : QExpr)
    (hc : TChain l s₀ p₀ e s p) (hl : l.WF) : QueryLayoutOKQ e [] :=
  queryLayoutOKQ_nil e (wfq_chain hc hl) (unitsLexOK_chain hc)

/-- **C09 (query: exactly invertible).** `(x <p><s> to <q><t>) to <p><s>` answers `x <p><s>`. -/
theorem C09_query_inverse (cfg : Cfg) (s t : TScale) (p q : Int) (t₁ t₂ : RTerm) (l : Literal)
    (ws : Layout) (h₁ : Written s p t₁) (h₂ : Written t q t₂) (hl : LitOKQ l)
    (hlay : QueryLayoutOKQ (.cast (.paren (convE l t₁ t₂)) [t₁]) ws) :
    Eval.query cfg (renderQuery (.cast (.paren (convE l t₁ t₂)) [t₁]) ws) =
      .ok ([.ok { value := value l, unit := cmp s p }], []) := by
  have hc : TChain l s p (.cast (.paren (convE l t₁ t₂)) [t₁]) s p :=
    .conv (.paren (.conv (.start h₁) h₂)) h₁
  rw [C09_query_chain cfg l s s p p _ ws hc hl hlay, fromK_toK]
  have h2 : (10 : Rat) ^ p ≠ 0 := zpow_ne_zero _ (by norm_num)
  rw [mul_div_cancel_right₀ _ h2]

/-! ## Refusals -/

/-- **C09 (query: a conversion of any expression with a misused offset scale is refused).**
`a to u₂` as text, for ANY quantity expression `a` in scope whose value carries a unit with an
offset scale anywhere but alone with power one (`BadOffset`), or whose target unit `u₂` misuses
one (`OffsetMisused`): the single result is an ERROR — `conversionNotPossible`, or `illegalCast`
when the dimensions differ as well — never a number. -/
theorem C09_query_refused_nested (cfg : Cfg) (a : QExpr) (r : Numeric) (u₂ : List RTerm)
    (ws : Layout) (hwf : WFQ a) (ha : InScope a) (hr : evQ cfg a = some r) (hne : r.unit ≠ [])
    (h₂ : UnitRead u₂) (n₂ : NonEmptyUnit (u₂.map rs))
    (h : BadOffset r.unit ∨ OffsetMisused (u₂.map rs)) (hlay : QueryLayoutOKQ (.cast a u₂) ws) :
    ∃ k s t, Eval.query cfg (renderQuery (.cast a u₂) ws) = .ok ([.error (.err k s t)], []) ∧
      (k = .illegalCast ∨ k = .conversionNotPossible) := by
  have hq := query_evQ cfg (.cast a u₂) ws hwf hlay ⟨ha, unitRuns_of_read h₂⟩
  rw [evQ_cast_refused_general cfg a r u₂ hr hne h₂ n₂ h] at hq
  obtain ⟨k, s, t, hk, hK⟩ := hq
  exact ⟨k, s, t, hk, kinds_cast_of_some hr hK⟩

/-- **C09 (query: a conversion with a misused offset scale is refused).** `x u₁ to u₂` as text,
where every written factor is read by the tool (`UnitRead`), neither unit cancels to nothing, and
in the source unit `u₁` or in the target unit `u₂` an offset scale (`°C`, `°F`) occurs anywhere
but alone with power one (`OffsetMisused`: squared, inverted, multiplied with other units — also
asymmetrically: a lone scale on one side, `°C*m/ft` on the other): the single result is an
ERROR, never a number — the zero point is never added to such a quantity. -/
theorem C09_query_refused (cfg : Cfg) (l : Literal) (u₁ u₂ : List RTerm) (ws : Layout)
    (hl : LitOKQ l) (h₁ : UnitRead u₁) (h₂ : UnitRead u₂) (n₁ : NonEmptyUnit (u₁.map rs))
    (n₂ : NonEmptyUnit (u₂.map rs)) (h : OffsetMisused (u₁.map rs) ∨ OffsetMisused (u₂.map rs))
    (hlay : QueryLayoutOKQ (.cast (.qty l u₁) u₂) ws) :
    ∃ k s t, Eval.query cfg (renderQuery (.cast (.qty l u₁) u₂) ws) =
      .ok ([.error (.err k s t)], []) ∧ (k = .illegalCast ∨ k = .conversionNotPossible) := by
  obtain ⟨T₁, hT₁, he₁, hn₁⟩ := evQ_qty_of_read cfg l h₁ n₁
  exact C09_query_refused_nested cfg (.qty l u₁) _ u₂ ws (litOKQ_wf hl)
    ⟨hl, unitRuns_of_read h₁⟩ he₁ hn₁ h₂ n₂ (h.imp_left (badOffset_of_misused h₁ hT₁)) hlay

/-- **C09 (query: a sum or difference of any two expressions).** `a + b`, `a - b` as text, both
values carrying a unit, one of them with a misused offset scale: a single ERROR
(`conversionNotPossible`, or `illegalOperation` when the dimensions differ as well). -/
theorem C09_query_refused_nested_sum (cfg : Cfg) (op : BinOp) (hop : op = .add ∨ op = .sub)
    (a b : QExpr) (ra rb : Numeric) (ws : Layout) (hwf : WFQ (.bin op a b)) (ha : InScope a)
    (hb : InScope b) (hra : evQ cfg a = some ra) (hrb : evQ cfg b = some rb) (na : ra.unit ≠ [])
    (nb : rb.unit ≠ []) (h : BadOffset ra.unit ∨ BadOffset rb.unit)
    (hlay : QueryLayoutOKQ (.bin op a b) ws) :
    ∃ k s t, Eval.query cfg (renderQuery (.bin op a b) ws) = .ok ([.error (.err k s t)], []) ∧
      (k = .illegalOperation ∨ k = .conversionNotPossible) := by
  have hq := query_evQ cfg (.bin op a b) ws hwf hlay ⟨ha, hb⟩
  rw [evQ_addsub_refused_general cfg op hop a b ra rb hra hrb na nb h] at hq
  obtain ⟨k, s, t, hk, hK⟩ := hq
  exact ⟨k, s, t, hk, kinds_addsub_of_some hop hra hrb hK⟩

/-- **C09 (query: a sum or difference with a misused offset scale is refused).** `x u₁ + y u₂`,
`x u₁ - y u₂` as text, an offset scale misused in `u₁` or in `u₂`: a single ERROR. -/
theorem C09_query_refused_sum (cfg : Cfg) (op : BinOp) (hop : op = .add ∨ op = .sub)
    (l₁ l₂ : Literal) (u₁ u₂ : List RTerm) (ws : Layout) (hl₁ : LitOKQ l₁) (hl₂ : LitOKQ l₂)
    (h₁ : UnitRead u₁) (h₂ : UnitRead u₂) (n₁ : NonEmptyUnit (u₁.map rs))
    (n₂ : NonEmptyUnit (u₂.map rs)) (h : OffsetMisused (u₁.map rs) ∨ OffsetMisused (u₂.map rs))
    (hlay : QueryLayoutOKQ (.bin op (.qty l₁ u₁) (.qty l₂ u₂)) ws) :
    ∃ k s t, Eval.query cfg (renderQuery (.bin op (.qty l₁ u₁) (.qty l₂ u₂)) ws) =
      .ok ([.error (.err k s t)], []) ∧ (k = .illegalOperation ∨ k = .conversionNotPossible) := by
  obtain ⟨T₁, hT₁, he₁, hn₁⟩ := evQ_qty_of_read cfg l₁ h₁ n₁
  obtain ⟨T₂, hT₂, he₂, hn₂⟩ := evQ_qty_of_read cfg l₂ h₂ n₂
  exact C09_query_refused_nested_sum cfg op hop _ _ _ _ ws
    (wfq_bin_qty op u₁ u₂ (litOKQ_wf hl₁) (litOKQ_wf hl₂)) ⟨hl₁, unitRuns_of_read h₁⟩
    ⟨hl₂, unitRuns_of_read h₂⟩ he₁ he₂ hn₁ hn₂
    (h.imp (badOffset_of_misused h₁ hT₁) (badOffset_of_misused h₂ hT₂)) hlay

/-- **C09 (query: a product or quotient of any two expressions).** `a * b`, `a / b` as text,
both values carrying a unit, one of them containing an offset scale (even alone with power one):
a single ERROR, `conversionNotPossible`. -/
theorem C09_query_refused_nested_product (cfg : Cfg) (op : BinOp) (hop : op = .mul ∨ op = .div)
    (a b : QExpr) (ra rb : Numeric) (ws : Layout) (hwf : WFQ (.bin op a b)) (ha : InScope a)
    (hb : InScope b) (hra : evQ cfg a = some ra) (hrb : evQ cfg b = some rb) (na : ra.unit ≠ [])
    (nb : rb.unit ≠ []) (h : HasOffset ra.unit ∨ HasOffset rb.unit)
    (hlay : QueryLayoutOKQ (.bin op a b) ws) :
    ∃ s t, Eval.query cfg (renderQuery (.bin op a b) ws) =
      .ok ([.error (.err .conversionNotPossible s t)], []) := by
  have hq := query_evQ cfg (.bin op a b) ws hwf hlay ⟨ha, hb⟩
  rw [evQ_muldiv_refused_general cfg op hop a b ra rb hra hrb na nb h] at hq
  obtain ⟨k, s, t, hk, hK⟩ := hq
  rw [kinds_muldiv_of_some hop hra hrb na nb h hK] at hk
  exact ⟨s, t, hk⟩

/-- **C09 (query: products and quotients).** `x u₁ * y u₂`, `x u₁ / y u₂` as text, where an
offset scale occurs in `u₁` or `u₂` at all (even alone with power one) and neither unit cancels
to nothing: a single ERROR. -/
theorem C09_query_refused_product (cfg : Cfg) (op : BinOp) (hop : op = .mul ∨ op = .div)
    (l₁ l₂ : Literal) (u₁ u₂ : List RTerm) (ws : Layout) (hl₁ : LitOKQ l₁) (hl₂ : LitOKQ l₂)
    (h₁ : UnitRead u₁) (h₂ : UnitRead u₂) (n₁ : NonEmptyUnit (u₁.map rs))
    (n₂ : NonEmptyUnit (u₂.map rs)) (h : OffsetPresent (u₁.map rs) ∨ OffsetPresent (u₂.map rs))
    (hlay : QueryLayoutOKQ (.bin op (.qty l₁ u₁) (.qty l₂ u₂)) ws) :
    ∃ s t, Eval.query cfg (renderQuery (.bin op (.qty l₁ u₁) (.qty l₂ u₂)) ws) =
      .ok ([.error (.err .conversionNotPossible s t)], []) := by
  obtain ⟨T₁, hT₁, he₁, hn₁⟩ := evQ_qty_of_read cfg l₁ h₁ n₁
  obtain ⟨T₂, hT₂, he₂, hn₂⟩ := evQ_qty_of_read cfg l₂ h₂ n₂
  exact C09_query_refused_nested_product cfg op hop _ _ _ _ ws
    (wfq_bin_qty op u₁ u₂ (litOKQ_wf hl₁) (litOKQ_wf hl₂)) ⟨hl₁, unitRuns_of_read h₁⟩
    ⟨hl₂, unitRuns_of_read h₂⟩ he₁ he₂ hn₁ hn₂
    (h.imp (hasOffset_of_present h₁ hT₁) (hasOffset_of_present h₂ hT₂)) hlay

/-! ## Where nothing is misused, nothing is refused -/

/-- **C09 (query: a plain number next to a temperature).** `x s + y`, `x s - y`, `y + x s`,
`y - x s` answer `x ± y` resp. `y ± x` in the unit `s` (the plain number adopts the unit), and
`x s * y`, `y * x s`, `x s / y` (`y ≠ 0`) scale the value and keep the unit: no zero point is
added anywhere. -/
theorem C09_query_plain (cfg : Cfg) (s : TScale) (p : Int) (t₁ : RTerm) (l₁ l₂ : Literal)
    (h₁ : Written s p t₁) (hl₁ : LitOKQ l₁) (hl₂ : LitOKQ l₂) :
    (∀ op ws, op = .add ∨ op = .sub → QueryLayoutOKQ (.bin op (.qty l₁ [t₁]) (.num l₂)) ws →
      Eval.query cfg (renderQuery (.bin op (.qty l₁ [t₁]) (.num l₂)) ws) =
        .ok ([.ok { value := if op = .sub then value l₁ - value l₂ else value l₁ + value l₂,
                    unit := cmp s p }], [])) ∧
    (∀ op ws, op = .add ∨ op = .sub → QueryLayoutOKQ (.bin op (.num l₂) (.qty l₁ [t₁])) ws →
      Eval.query cfg (renderQuery (.bin op (.num l₂) (.qty l₁ [t₁])) ws) =
        .ok ([.ok { value := if op = .sub then value l₂ - value l₁ else value l₂ + value l₁,
                    unit := cmp s p }], [])) ∧
    (∀ ws, QueryLayoutOKQ (.bin .mul (.qty l₁ [t₁]) (.num l₂)) ws →
      Eval.query cfg (renderQuery (.bin .mul (.qty l₁ [t₁]) (.num l₂)) ws) =
        .ok ([.ok { value := value l₁ * value l₂, unit := cmp s p }], [])) ∧
    (∀ ws, QueryLayoutOKQ (.bin .mul (.num l₂) (.qty l₁ [t₁])) ws →
      Eval.query cfg (renderQuery (.bin .mul (.num l₂) (.qty l₁ [t₁])) ws) =
        .ok ([.ok { value := value l₂ * value l₁, unit := cmp s p }], [])) ∧
    (∀ ws, value l₂ ≠ 0 → QueryLayoutOKQ (.bin .div (.qty l₁ [t₁]) (.num l₂)) ws →
      Eval.query cfg (renderQuery (.bin .div (.qty l₁ [t₁]) (.num l₂)) ws) =
        .ok ([.ok { value := value l₁ / value l₂, unit := cmp s p }], [])) := by
  have hs₁ : InScope (.qty l₁ [t₁]) := ⟨hl₁, unitRuns_written h₁⟩
  have hs₂ : InScope (.num l₂) := hl₂
  have hw := fun op => wfq_num_qty op [t₁] (litOKQ_wf hl₂) (litOKQ_wf hl₁)
  obtain ⟨m1, m2, m3⟩ := evQ_plain_muldiv cfg l₁ l₂ h₁
  refine ⟨fun op ws hop hlay => ?_, fun op ws hop hlay => ?_, fun ws hlay => ?_, fun ws hlay => ?_,
    fun ws hy hlay => ?_⟩
  · have h := query_evQ cfg _ ws (hw op).2 hlay ⟨hs₁, hs₂⟩
    rw [(evQ_plain_addsub cfg op hop l₁ l₂ h₁).1] at h
    exact h
  · have h := query_evQ cfg _ ws (hw op).1 hlay ⟨hs₂, hs₁⟩
    rw [(evQ_plain_addsub cfg op hop l₁ l₂ h₁).2] at h
    exact h
  · have h := query_evQ cfg _ ws (hw .mul).2 hlay ⟨hs₁, hs₂⟩
    rw [m1] at h
    exact h
  · have h := query_evQ cfg _ ws (hw .mul).1 hlay ⟨hs₂, hs₁⟩
    rw [m2] at h
    exact h
  · have h := query_evQ cfg _ ws (hw .div).2 hlay ⟨hs₁, hs₂⟩
    rw [m3 hy] at h
    exact h

/-- **C09 (query: sums of lone scales, as the tool reads them).** `x <p><s> + y <q><t>` and
`x <p><s> - y <q><t>` are not refused: `Eval.add` converts the right operand — as a POINT, by the
defining formulas — to the left unit and adds or subtracts there. -/
theorem C09_query_sum_lone (cfg : Cfg) (op : BinOp) (hop : op = .add ∨ op = .sub) (s t : TScale)
    (p q : Int) (t₁ t₂ : RTerm) (l₁ l₂ : Literal) (ws : Layout) (h₁ : Written s p t₁)
    (h₂ : Written t q t₂) (hl₁ : LitOKQ l₁) (hl₂ : LitOKQ l₂)
    (hlay : QueryLayoutOKQ (.bin op (.qty l₁ [t₁]) (.qty l₂ [t₂])) ws) :
    Eval.query cfg (renderQuery (.bin op (.qty l₁ [t₁]) (.qty l₂ [t₂])) ws) =
      .ok ([.ok { value :=
                    if op = .sub
                    then value l₁ - fromK s (toK t (value l₂ * (10 : Rat) ^ q)) / (10 : Rat) ^ p
                    else value l₁ + fromK s (toK t (value l₂ * (10 : Rat) ^ q)) / (10 : Rat) ^ p,
                  unit := cmp s p }], []) := by
  have h := query_evQ cfg _ ws (wfq_bin_qty op [t₁] [t₂] (litOKQ_wf hl₁) (litOKQ_wf hl₂)) hlay
    ⟨⟨hl₁, unitRuns_written h₁⟩, ⟨hl₂, unitRuns_written h₂⟩⟩
  rw [evQ_sum_lone cfg op hop l₁ l₂ h₁ h₂] at h
  exact h

/-! ## The specification's reading -/

/-- **C09 (query against `Spec.Quantity`).** The answer to `x <p><s> to <q><t>` is what the
specification says: `denote false` reads the literal as the kelvin POINT
`Spec.SI.pointToKelvin` (a lone offset scale with power one), the unit the result is expected in
is `<q><t>`, and the value answered is `Spec.Quantity.inUnit` of that point in that unit. -/
theorem C09_query_spec (cfg : Cfg) (s t : TScale) (p q : Int) (t₁ t₂ : RTerm) (l : Literal)
    (ws : Layout) (h₁ : Written s p t₁) (h₂ : Written t q t₂) (hl : LitOKQ l)
    (hlay : QueryLayoutOKQ (convE l t₁ t₂) ws) :
    ∃ r v, Eval.query cfg (renderQuery (convE l t₁ t₂) ws) = .ok ([.ok r], []) ∧
      denote false (convE l t₁ t₂) = .ok v ∧ v.unit = some (semOf r.unit) ∧
      resolveAll [t₂] = some (semOf r.unit) ∧ inUnit false v.q (semOf r.unit) = .ok r.value :=
  ⟨_, _, C09_query_convert cfg s t p q t₁ t₂ l ws h₁ h₂ hl hlay, denote_convE l h₁ h₂, rfl,
    resolveAll_written h₂, inUnit_scale t q _⟩

/-! ## The shapes the property names -/

/-- **C09 (query: powers of a scale).** `x s^k to t^k'` for scales written with any integer
powers `k`, `k'` other than zero (`°C^2`, `1/°F`, `°C^-3` … `°C^3`), where an offset scale has a
power other than one on either side: a single ERROR. -/
theorem C09_query_refused_power (cfg : Cfg) (s t : TScale) (p q k k' : Int) (t₁ t₂ : RTerm)
    (l : Literal) (ws : Layout) (h₁ : WrittenPow s p k t₁) (h₂ : WrittenPow t q k' t₂)
    (hk : k ≠ 0) (hk' : k' ≠ 0) (h : (s ≠ .K ∧ k ≠ 1) ∨ (t ≠ .K ∧ k' ≠ 1)) (hl : LitOKQ l)
    (hlay : QueryLayoutOKQ (.cast (.qty l [t₁]) [t₂]) ws) :
    ∃ k s t, Eval.query cfg (renderQuery (.cast (.qty l [t₁]) [t₂]) ws) =
      .ok ([.error (.err k s t)], []) ∧ (k = .illegalCast ∨ k = .conversionNotPossible) :=
  C09_query_refused cfg l [t₁] [t₂] ws hl (unitRead_pow h₁) (unitRead_pow h₂) (nonEmpty_pow h₁ hk)
    (nonEmpty_pow h₂ hk')
    (h.imp (fun h => misused_pow h₁ h.1 hk h.2) (fun h => misused_pow h₂ h.1 hk' h.2)) hlay

/-- **C09 (query: sums of powers of a scale).** Likewise `x s^k ± y t^k'`. -/
theorem C09_query_refused_power_sum (cfg : Cfg) (op : BinOp) (hop : op = .add ∨ op = .sub)
    (s t : TScale) (p q k k' : Int) (t₁ t₂ : RTerm) (l₁ l₂ : Literal) (ws : Layout)
    (h₁ : WrittenPow s p k t₁) (h₂ : WrittenPow t q k' t₂) (hk : k ≠ 0) (hk' : k' ≠ 0)
    (h : (s ≠ .K ∧ k ≠ 1) ∨ (t ≠ .K ∧ k' ≠ 1)) (hl₁ : LitOKQ l₁) (hl₂ : LitOKQ l₂)
    (hlay : QueryLayoutOKQ (.bin op (.qty l₁ [t₁]) (.qty l₂ [t₂])) ws) :
    ∃ k s t, Eval.query cfg (renderQuery (.bin op (.qty l₁ [t₁]) (.qty l₂ [t₂])) ws) =
      .ok ([.error (.err k s t)], []) ∧ (k = .illegalOperation ∨ k = .conversionNotPossible) :=
  C09_query_refused_sum cfg op hop l₁ l₂ [t₁] [t₂] ws hl₁ hl₂ (unitRead_pow h₁) (unitRead_pow h₂)
    (nonEmpty_pow h₁ hk) (nonEmpty_pow h₂ hk')
    (h.imp (fun h => misused_pow h₁ h.1 hk h.2) (fun h => misused_pow h₂ h.1 hk' h.2)) hlay

/-- **C09 (a scale combined with other units is a misuse).** In a written unit expression, an
offset scale `k` with a non-zero total power next to another unit `k'` with a non-zero total
power — one or two or any number of other units — is `OffsetMisused`; so `C09_query_refused`,
`C09_query_refused_sum` apply to `°C*m`, `°C/s`, `°C*m/ft`, `m/°F` …, on either side. -/
theorem C09_misused_with_other (sem : UnitSem) (k k' : UnitKey) (hk : isAffine k = true)
    (hP : P sem k ≠ 0) (hne : k' ≠ k) (hP' : P sem k' ≠ 0) : OffsetMisused sem :=
  misused_with hk hP hne hP'

/-! ## Non-vacuity and tests (labelled as such) -/

/-- Non-vacuity of `Written` (sample words `°C`, `°F`, `K`, `m°C`, `kK`, `celsius` of
`Lemmas/C9QExamples.lean`). -/
example : Written .C 0 degC ∧ Written .F 0 degF ∧ Written .K 0 kel ∧ Written .C (-3) milliC ∧
    Written .K 3 kiloK ∧ Written .C 0 celsiusW :=
  ⟨written_degC, written_degF, written_kel, written_milliC, written_kiloK, written_celsius⟩

/-- Non-vacuity of `C09_query_convert`: `1m°C to kK` (number glued to its unit) is a rendering
under an admissible layout (`C09_query_convert_layout`); the theorem's value is
(0.001 + 273.15)/1000. -/
example : String.ofList (renderQuery (convE (natLit [1]) milliC kiloK) [[], [], [' '], [' '], []]) =
      "1m°C to kK" ∧ value (natLit [1]) = 1 ∧
    fromK .K (toK .C ((1 : Rat) * (10 : Rat) ^ (-3 : Int))) / (10 : Rat) ^ (3 : Int) =
      273151 / 1000000 :=
  ⟨by decide +kernel, by decide +kernel, by norm_num [fromK, toK]⟩

/-- Test (labelled as a test): the model's whole pipeline on this text. -/
example : (Eval.query { db := fun _ => .nothing } "1m°C to kK".toList).toOption.map
    (fun r => r.1.map (fun x => x.toOption.map (fun n => (n.value, n.unit)))) =
      some [some (273151 / 1000000, Props.C09.cmp .K 3)] := by decide +kernel

/-- Non-vacuity of `C09_query_chain`: `((1 °C to K) to °F) to °C` is a chain. -/
example : TChain (natLit [1]) .C 0
    (.cast (.paren (.cast (.paren (convE (natLit [1]) degC kel)) [degF])) [degC]) .C 0 :=
  .conv (.paren (.conv (.paren (.conv (.start written_degC) written_kel)) written_degF)) written_degC

/-- Test (labelled as a test): that chain as text, with and without parentheses. -/
example : (Eval.query { db := fun _ => .nothing } "((1 °C to K) to °F) to °C".toList).toOption.map
      (fun r => r.1.map (fun x => x.toOption.map (fun n => (n.value, n.unit)))) =
      some [some (1, Props.C09.cmp .C 0)] := by decide +kernel

example : (Eval.query { db := fun _ => .nothing } "1 °C to K to °F to °C".toList).toOption.map
      (fun r => r.1.map (fun x => x.toOption.map (fun n => (n.value, n.unit)))) =
      some [some (1, Props.C09.cmp .C 0)] := by decide +kernel

/-- Test (labelled as a test) for `C09_query_sum_lone` and `C09_query_plain`: `1 °C + 1 K` is
1 + (1 − 273.15) °C; `2 * 1 °C` and `1 °C + 1` are `2 °C`. -/
example : (Eval.query { db := fun _ => .nothing } "1 °C + 1 K".toList).toOption.map
      (fun r => r.1.map (fun x => x.toOption.map (fun n => (n.value, n.unit)))) =
      some [some (-5423 / 20, Props.C09.cmp .C 0)] ∧
    (1 : Rat) + fromK .C (toK .K ((1 : Rat) * (10 : Rat) ^ (0 : Int))) / (10 : Rat) ^ (0 : Int) =
      -5423 / 20 :=
  ⟨by decide +kernel, by norm_num [fromK, toK]⟩

example : (Eval.query { db := fun _ => .nothing } "2 * 1 °C".toList).toOption.map
      (fun r => r.1.map (fun x => x.toOption.map (fun n => (n.value, n.unit)))) =
      some [some (2, Props.C09.cmp .C 0)] := by decide +kernel

example : (Eval.query { db := fun _ => .nothing } "1 °C + 1".toList).toOption.map
      (fun r => r.1.map (fun x => x.toOption.map (fun n => (n.value, n.unit)))) =
      some [some (2, Props.C09.cmp .C 0)] := by decide +kernel

/-- Non-vacuity of `C09_query_refused` & co.: `°C^2`, `1/°C`, `°C*m/ft` are read, do not cancel
and misuse an offset scale; `°C` alone does not. -/
example : UnitRead degC2 ∧ NonEmptyUnit (degC2.map rs) ∧ OffsetMisused (degC2.map rs) ∧
    UnitRead perC ∧ NonEmptyUnit (perC.map rs) ∧ OffsetMisused (perC.map rs) ∧
    UnitRead cmft ∧ NonEmptyUnit (cmft.map rs) ∧ OffsetMisused (cmft.map rs) ∧
    UnitRead [degC] ∧ NonEmptyUnit ([degC].map rs) ∧ OffsetPresent ([degC].map rs) ∧
    misusedCheck ([degC].map rs) = false :=
  ⟨unitRead_of_check (by decide +kernel), nonEmpty_of_check (by decide +kernel),
   misused_of_check (by decide +kernel),
   unitRead_of_check (by decide +kernel), nonEmpty_of_check (by decide +kernel),
   misused_of_check (by decide +kernel),
   unitRead_of_check (by decide +kernel), nonEmpty_of_check (by decide +kernel),
   misused_of_check (by decide +kernel),
   unitRead_of_check (by decide +kernel), nonEmpty_of_check (by decide +kernel),
   present_of_check (by decide +kernel), by decide +kernel⟩

/-- … and the asymmetric query `1 °C to °C*m/ft` has an admissible layout (the default one). -/
example : QueryLayoutOKQ (.cast (.qty (natLit [1]) [degC]) cmft) [] ∧
    String.ofList (renderQuery (.cast (.qty (natLit [1]) [degC]) cmft) []) = " 1 °C to °C*m/ft " :=
  ⟨queryLayoutOKQ_nil _ (by simp [WFQ, natLit, Literal.WF, fracDigits])
    ⟨unitLexOK_of_check (by decide +kernel), unitLexOK_of_check (by decide +kernel)⟩,
   by decide +kernel⟩

/-- Non-vacuity of `WrittenPow` (`°F^-3`). -/
example : WrittenPow .F 0 (-3) ⟨[], ['°', 'F'], -3⟩ :=
  ⟨⟨by decide +kernel, by decide, rfl, by decide⟩, rfl, by decide⟩

/-- Which error (labelled as tests): a refused conversion or sum is `conversionNotPossible`
(the offset scale is met while rescaling) or, when the dimensions differ, `illegalCast` /
`illegalOperation`; a product is `conversionNotPossible`. -/
def errKinds (src : String) : Option (List (Option ErrKind)) :=
  (Eval.query { db := fun _ => .nothing } src.toList).toOption.map
    (fun r => r.1.map (fun x => match x with | .error (.err k _ _) => some k | _ => none))

example : errKinds "1 °C^2 to K^2" = some [some .conversionNotPossible] ∧
    errKinds "1 °C to °C*m/ft" = some [some .conversionNotPossible] ∧
    errKinds "1 °C*m/ft + 1 °C" = some [some .conversionNotPossible] ∧
    errKinds "1 K to 1/°C" = some [some .illegalCast] ∧
    errKinds "1 °C^2 - 1 m" = some [some .illegalOperation] ∧
    errKinds "1 °C * 2 m" = some [some .conversionNotPossible] ∧
    errKinds "1 m / 2 °F" = some [some .conversionNotPossible] := by decide +kernel

/-! ## Findings, pinned -/

/-- **Finding (`ccelsius`).** The specification resolves "prefix `c`, name `celsius`" to the
centi-degree; the tool's unit-word parser does not read the word `ccelsius` at all (it takes `cc`,
the cubic centimetre, first) and the query is refused with `illegalUnit`. `Written` excludes this
spelling (and only this one among the typeable prefixed spellings, `writtenCheck_all`). -/
theorem C09_finding_ccelsius :
    (resolve ⟨['c'], ['c', 'e', 'l', 's', 'i', 'u', 's'], 1⟩).map (fun x => (x.pfx, x.key)) =
      some (-2, key .C) ∧
    UnitWord.parseWord ['c', 'c', 'e', 'l', 's', 'i', 'u', 's'] = none ∧
    errKinds "1 ccelsius to K" = some [some .illegalUnit] := by decide +kernel

/-- **Finding (`μ`).** The unit-word parser accepts the micro sign as a prefix (`μK` is
10⁻⁶ K), but `μ` is not a word character of the query lexer: a query cannot spell it
(`syntaxError`). `Written` excludes the prefix `μ`; `micro` is fine. -/
theorem C09_finding_micro :
    UnitWord.parseWord ['μ', 'K'] = some [(-6, key .K)] ∧ Lexer.isWordChar 'μ' = false ∧
    errKinds "1 μK to K" = some [some .syntaxError] ∧
    Written .K (-6) ⟨['m', 'i', 'c', 'r', 'o'], ['K'], 1⟩ :=
  ⟨by decide +kernel, by decide +kernel, by decide +kernel,
   ⟨by decide +kernel, by decide, rfl, by decide⟩⟩

/-- **Finding ("alone" is judged after cancellation).** In `1 °C*m/m to K` the offset scale is
written next to other units; the specification refuses (`offsetScale`: not a lone factor), the
tool cancels `m/m` first, is left with `°C` alone and answers 274.15 K. This is why
`OffsetMisused` speaks of TOTAL powers. -/
theorem C09_finding_cancel :
    let u : List RTerm := [⟨[], ['°', 'C'], 1⟩, ⟨[], ['m'], 1⟩, ⟨[], ['m'], -1⟩]
    (denote false (.cast (.qty (natLit [1]) u) [kel])).toOption.isNone = true ∧
    misusedCheck (u.map rs) = false ∧
    (Eval.query { db := fun _ => .nothing } "1 °C*m/m to K".toList).toOption.map
      (fun r => r.1.map (fun x => x.toOption.map (fun n => (n.value, n.unit)))) =
      some [some (5483 / 20, Props.C09.cmp .K 0)] := by decide +kernel

/-- The statement one might expect: `C09_query_convert` for EVERY prefix literal of the word table
in front of every spelling (`Written` without its last clause). It is FALSE for the model (and the
program): `C09_query_convert_unrestricted_fails`; what is proved is `C09_query_convert`, which
leaves out exactly `μ…` and `ccelsius` (`C09_finding_micro`, `C09_finding_ccelsius`). -/
def C09_query_convert_unrestricted_statement : Prop :=
  ∀ (cfg : Cfg) (s t : TScale) (p q : Int) (t₁ t₂ : RTerm) (l : Literal) (ws : Layout),
    (t₁.pfxLit, p) ∈ pfxLits → t₁.nameLit ∈ spellings s → t₁.power = 1 →
    (t₂.pfxLit, q) ∈ pfxLits → t₂.nameLit ∈ spellings t → t₂.power = 1 →
    LitOKQ l → QueryLayoutOKQ (convE l t₁ t₂) ws →
    Eval.query cfg (renderQuery (convE l t₁ t₂) ws) =
      .ok ([.ok { value := fromK t (toK s (value l * (10 : Rat) ^ p)) / (10 : Rat) ^ q,
                  unit := cmp t q }], [])

theorem C09_query_convert_unrestricted_fails : ¬ C09_query_convert_unrestricted_statement := by
  intro hfull
  have h := hfull { db := fun _ => .nothing } .C .K (-2) 0
    ⟨['c'], ['c', 'e', 'l', 's', 'i', 'u', 's'], 1⟩ kel (natLit [1]) []
    (by decide +kernel) (by decide) rfl (by decide +kernel) (by decide) rfl
    (litOKQ_digit 1 (by omega))
    (queryLayoutOKQ_nil _ (by simp [WFQ, natLit, Literal.WF, fracDigits])
      ⟨unitLexOK_of_check (by decide +kernel), unitLexOK_of_check (by decide +kernel)⟩)
  have h2 : (Eval.query { db := fun _ => .nothing }
      (renderQuery (convE (natLit [1]) ⟨['c'], ['c', 'e', 'l', 's', 'i', 'u', 's'], 1⟩ kel) [])).toOption.map
      (fun r => r.1.map (fun x => x.toOption.isSome)) = some [false] := by decide +kernel
  rw [h] at h2
  simp [Except.toOption] at h2

/-!
## Remarks

* **Scope of the literals.** `LitOKQ`: a well-formed literal within the number reader's `u32`
  guards, written without a percent sign (as in `Props/QuantityQuery.lean`).
* **Layouts.** `QueryLayoutOKQ` is the hypothesis of `Props/QuantityQuery.lean`; for one conversion
  it is spelled out by `C09_query_convert_layout`, and every chain has the default layout
  (`C09_query_chain_layout`).
* **Errors.** The refusal theorems give the kind (`conversionNotPossible`, or `illegalCast` /
  `illegalOperation` when the dimensions differ as well; the labelled tests show each). The spans
  are left open. The model never takes the interval reading of a degree: a misused scale is always
  refused (`Spec.Quantity.denote true` would be the interval alternative the property allows).
* **A lone scale against a compound kelvin unit.** `1 °C to K*m/ft` is not a misuse in the sense
  of the property (the offset scale stands alone with power one, the target has none): the tool
  converts the POINT (274.15 K) and expresses it in `K*m/ft`.
* **`*`, `/`.** A product or quotient of two quantities with units is refused as soon as an offset
  scale occurs at all (`1 °C * 2 m`); a plain number as the other factor is fine (`2 * 1 °C` is
  `2 °C`: no zero point is involved).
* **Sums of lone scales** (`1 °C + 1 K`) are not refused: `Eval.add` converts the right operand as
  a POINT to the left unit (−272.15 °C) and adds (`C09_query_sum_lone`) — outside the clauses of
  C09, stated for completeness.
-/

end Anything.Props.C09Query
