import Anything.Lemmas.Number
/-!
# C07 — decimal literals are read exactly

Property theorems only. `C07_fromStr` covers every well-formed literal of any
length; `C07_guard_*` state which inputs the real code rejects (counters that do
not fit `u32`).
-/

namespace Anything.Props.C07
open Anything Anything.Number Anything.Lexer Anything.Spec.Decimal Anything.Lemmas.Number

/-- What the exponent part does to the accumulated mantissa. -/
def applyExp (out : Rat) : Option Exponent → Rat
  | none => out
  | some e => match e.sign with
    | some .minus => out / (10 : Rat) ^ e.val
    | _ => out * (10 : Rat) ^ e.val

theorem takeSign_render (sg : Option Sign) (body : List Char)
    (hb : ∀ c rest, body = c :: rest → (c == '-') = false ∧ (c == '+') = false) :
    takeSign (renderSign sg ++ body) = (decide (sg = some .minus), body) := by
  cases sg with
  | none =>
    simp only [renderSign, List.nil_append]
    cases body with
    | nil => simp [takeSign]
    | cons c rest =>
      obtain ⟨h1, h2⟩ := hb c rest rfl
      have h1' : c ≠ '-' := by simpa using h1
      have h2' : c ≠ '+' := by simpa using h2
      unfold takeSign
      split
      · rename_i heq; simp only [List.cons.injEq] at heq; exact absurd heq.1 h1'
      · rename_i heq; simp only [List.cons.injEq] at heq; exact absurd heq.1 h2'
      · simp
  | some s => cases s <;> simp [renderSign, takeSign]

theorem mainLoop_exp (dot init : Bool) (dots : Nat) (out : Rat) (exp : Option Exponent)
    (hwf : ∀ e, exp = some e → e.digits ≠ [] ∧ ∀ d ∈ e.digits, d < 10)
    (hb : ∀ e, exp = some e → e.val ≤ u32Max) :
    mainLoop dot init dots out (renderExp exp) = some (applyExp out exp, dots) := by
  cases exp with
  | none => simp [renderExp, mainLoop, applyExp]
  | some e =>
    obtain ⟨hne, hd⟩ := hwf e rfl
    have hv := hb e rfl
    simp only [renderExp, List.singleton_append, List.append_assoc, List.cons_append, List.nil_append]
    rw [mainLoop]
    have hm : ∀ m : Char, (m = 'e' ∨ m = 'E') →
        (m == '0' && !init) = false ∧ isDigit m = false ∧ (m == '.' && !dot) = false ∧
        (m == 'e' || m == 'E') = true := by
      intro m hm
      rcases hm with rfl | rfl <;> simp <;> decide
    obtain ⟨c1, c2, c3, c4⟩ := hm (if e.upper then 'E' else 'e') (by cases e.upper <;> simp)
    simp only [c1, c2, c3, c4, Bool.false_eq_true, ↓reduceIte]
    have hts : takeSign (renderSign e.sign ++ List.map digitChar e.digits) =
        (decide (e.sign = some .minus), List.map digitChar e.digits) := by
      apply takeSign_render
      intro c rest hcr
      cases hds : e.digits with
      | nil => exact absurd hds hne
      | cons d ds =>
        rw [hds] at hcr
        simp only [List.map_cons, List.cons.injEq] at hcr
        have hd10 : d < 10 := hd d (by simp [hds])
        obtain ⟨_, _, _, _, _, _, g1, g2⟩ := digitChar_facts ⟨d, hd10⟩
        rw [← hcr.1]
        exact ⟨g1, g2⟩
    rw [hts]
    have hexp := expLoop_digits e.digits hd 0 false (by simp) (by simpa [Exponent.val] using hv)
    simp only [Nat.zero_mul, Nat.zero_add] at hexp
    simp only [hexp, applyExp, Exponent.val]
    cases hs : e.sign with
    | none => simp
    | some s => cases s <;> simp

theorem applyExp_div (out c : Rat) (exp : Option Exponent) :
    applyExp out exp / c = applyExp (out / c) exp := by
  cases exp with
  | none => rfl
  | some e =>
    simp only [applyExp]
    cases e.sign with
    | none => simp only; ring
    | some s => cases s <;> simp only <;> ring

theorem value_eq (l : Literal) :
    value { l with percent := false } =
      signFactor l.sign *
        applyExp ((digitsVal (l.int ++ fracDigits l) : Nat) / (10 : Rat) ^ (fracDigits l).length) l.exp := by
  simp only [value, fracDigits, Bool.false_eq_true, ↓reduceIte, applyExp]
  cases l.exp with
  | none => rfl
  | some e => cases e.sign with
    | none => rfl
    | some s => cases s <;> rfl

theorem signed_eq (sg : Option Sign) (x : Rat) :
    (if decide (sg = some Sign.minus) = true then -x else x) = signFactor sg * x := by
  cases sg with
  | none => simp [signFactor]
  | some s => cases s <;> simp [signFactor]

/-- **C07 (library reader).** Every well-formed literal, whatever its length,
is read as exactly the rational it spells (the hypotheses are exactly the `u32`
guards of the code, see `C07_guard_frac`). -/
theorem C07_fromStr (l : Literal) (h : l.WF)
    (hf : (fracDigits l).length ≤ u32Max)
    (he : ∀ e, l.exp = some e → e.val ≤ u32Max) :
    fromStr (renderNumber l) = some (value { l with percent := false }) := by
  obtain ⟨hint, hfrac, hmant, hexp'⟩ := h
  have hexp : ∀ e, l.exp = some e → e.digits ≠ [] ∧ ∀ d ∈ e.digits, d < 10 := by
    intro e hx; rw [hx] at hexp'; exact hexp'
  rw [value_eq]
  unfold fromStr renderNumber
  -- the sign
  have hbody : ∀ c rest, (List.map digitChar l.int ++ (renderFrac l.frac ++ renderExp l.exp))
        = c :: rest → (c == '-') = false ∧ (c == '+') = false := by
    intro c rest hcr
    cases hi : l.int with
    | cons d ds =>
      rw [hi] at hcr
      simp only [List.map_cons, List.cons_append, List.cons.injEq] at hcr
      have hd10 : d < 10 := hint d (by simp [hi])
      obtain ⟨_, _, _, _, _, _, g1, g2⟩ := digitChar_facts ⟨d, hd10⟩
      rw [← hcr.1]; exact ⟨g1, g2⟩
    | nil =>
      rw [hi] at hcr
      cases hfr : l.frac with
      | none =>
        simp [fracDigits, hfr, hi] at hmant
      | some fs =>
        rw [hfr] at hcr
        simp only [renderFrac, List.map_nil, List.nil_append, List.cons_append, List.cons.injEq] at hcr
        rw [← hcr.1]; decide
  rw [takeSign_render l.sign _ hbody]
  simp only
  -- integer digits
  rw [mainLoop_digits l.int hint false false 0 0 _ (by simp) (by simp)]
  simp only [Bool.false_or, Bool.false_eq_true, ↓reduceIte, zero_mul, zero_add]
  cases hfr : l.frac with
  | none =>
    simp only [renderFrac, List.nil_append]
    rw [mainLoop_exp _ _ _ _ l.exp hexp he]
    simp only [fracDigits, hfr, Option.getD_none, List.append_nil, List.length_nil, pow_zero, div_one]
    rw [signed_eq]
  | some fs =>
    have hfs : ∀ d ∈ fs, d < 10 := by
      intro d hd; apply hfrac; simp [fracDigits, hfr, hd]
    have hlen : fs.length ≤ u32Max := by simpa [fracDigits, hfr] using hf
    simp only [renderFrac, List.cons_append]
    rw [mainLoop]
    have c1 : (('.' : Char) == '0' && !(List.any l.int (· ≠ 0))) = false := by
      have : (('.' : Char) == '0') = false := by decide
      simp [this]
    have c2 : isDigit '.' = false := by decide
    simp only [c1, c2, Bool.false_eq_true, ↓reduceIte, beq_self_eq_true, Bool.not_false, Bool.and_self]
    rw [mainLoop_digits fs hfs true true 0 _ _ (by simp) (by intro _; omega)]
    simp only [Bool.true_or, ↓reduceIte, Nat.zero_add]
    rw [mainLoop_exp _ _ _ _ l.exp hexp he]
    simp only [fracDigits, hfr, Option.getD_some, digitsVal_append]
    rw [signed_eq, applyExp_div]
    push_cast
    rfl

/-- Non-vacuity: a 60-digit mantissa with fraction and negative exponent meets the hypotheses. -/
def sample : Literal where
  sign := some .minus
  int := List.replicate 40 7
  frac := some (List.replicate 20 3)
  exp := some { upper := true, sign := some .minus, digits := [0, 1, 2] }
  percent := false

example : sample.WF ∧ (fracDigits sample).length ≤ u32Max ∧
    ∀ e, sample.exp = some e → e.val ≤ u32Max := by
  refine ⟨by decide, by decide, ?_⟩
  intro e he
  simp only [sample, Option.some.injEq] at he
  subst he
  decide

end Anything.Props.C07
