import Anything.Lemmas.QQExamples
/-!
# Quantity expressions END TO END (C02, C03, C04, C13 at the level of whole queries)

`Props/C02`–`C04`, `C13` prove commensurability, conversion, dimensional exactness and the field
laws for the evaluator's FUNCTIONS. Here the same facts are proved for query TEXT: for every
quantity expression `e` of `Spec.Quantity` — literals with units (proportional units), `+ - * /`,
`^` with a literal exponent, parentheses and `to`, nested to any depth — and every admissible
layout of blanks, the whole pipeline `Eval.query` (lexer, parser, `eval::unit`, evaluator) applied
to `Spec.Quantity.renderQuery e ws` answers what the specification `Spec.Quantity.denote` says.
This is the analogue of `Props/C06` (`C06_lex_render`, `C06_parse_render`, `C06_eval_represents`,
`C06_query`) for expressions over quantities; the proofs live in `Lemmas/QQ*.lean`.

* **Lexer** (`Q_lex_render`, `Q_lex_renderQuery`): the token list of a rendering.
* **Parser** (`Q_parse_render`): `parseRoot` succeeds and the single non-blank tree
  `RepresentsQ e` — C06's `Represents` extended with WITH_UNIT nodes `[number, UNIT node]` and
  OP_CAST operators whose right operand is a UNIT node; `to` has the lowest priority.
* **Evaluator** (`Q_eval_represents`): on any tree that `RepresentsQ e` the evaluator returns a
  value with `siQ r = (denote false e).q` (SI value and dimensions) in the unit the specification
  determines (`Agree`), or an error exactly when `denote false e` is one.
* **Final** (`Q_query`) and, with the runner's names, `C02_query`, `C03_query`, `C04_query`,
  `C13_query`.

Definitions: `Lemmas/QQDefs.lean` (`unitItems`, `RepUnit`, `RepresentsQ`, `WFQ`, `UnitsOK`,
`Determinate`, `Agree`, `PowRisk`, `OutcomeQ`), `Lemmas/QQLexDefs.lean` (`toksQ`, `LayoutOKQ`,
`QueryLayoutOKQ`), `Lemmas/QQQuery.lean` (`QueryOutcomeQ`). The side conditions and what they
exclude are discussed in the remarks at the end of this file.
-/

namespace Anything.Props.QuantityQuery
open Anything Anything.Eval Anything.Spec Anything.Spec.Arith Anything.Spec.Decimal
open Anything.Spec.Quantity Anything.Spec.SI Anything.C06 Anything.QQ Anything.QQ.Ex Anything.Props.C04

/-! ## Stage C — lexer -/

/-- **Lexer on renderings.** For every quantity expression and every admissible layout
(`LayoutOKQ`), the lexer produces, on the rendering of `e` followed by any text `rest` that is
empty or starts with a blank, a closing delimiter or an operator (`ExprStop`), exactly the
in-order token list `toksQ e ws` — NUMBER, then for a written unit expression the WORD / NUMBER /
STAR / SLASH / CARET tokens of `unitItems`, glued as `renderUnit` writes them; one WHITESPACE
token per non-empty blank; `TO` for the keyword — followed by the tokens of `rest`. -/
theorem Q_lex_render (e : QExpr) (ws : Layout) (rest : List Char) (h : LayoutOKQ e ws)
    (hs : ExprStop rest) :
    Lexer.lex ((Quantity.render e ws).1 ++ rest) = toksQ e ws ++ Lexer.lex rest :=
  lex_renderQ e ws rest h hs

/-- **Lexer on rendered queries**: leading blank, the tokens of the expression, trailing blank. -/
theorem Q_lex_renderQuery (e : QExpr) (ws : Layout) (h : QueryLayoutOKQ e ws) :
    Lexer.lex (renderQuery e ws) = queryToksQ e ws :=
  lex_queryQ e ws h

/-- What `renderUnit` writes is the concatenation of the item texts. -/
theorem Q_renderUnit_items (u : List RTerm) :
    renderUnit u = (unitItems u).flatMap (·.text) :=
  renderUnit_items u

/-! ## Stage D — parser -/

/-- **Parser on renderings.** For every well-formed quantity expression (`WFQ`: the tree the
documented grammar assigns to its own rendering — left-associative operators, `to` loosest) and
every admissible layout, parsing the rendered query succeeds and the forest consists of blank
leaves and exactly one other tree, which represents `e` (`RepresentsQ`) and is levelled
(`RepresentsQL`: all operators of one OPERATION node have one priority). -/
theorem Q_parse_render (e : QExpr) (ws : Layout) (hwf : WFQ e) (hl : QueryLayoutOKQ e ws) :
    ∃ forest x, Grammar.parseRoot (renderQuery e ws) = .ok forest ∧
      forest.filter (fun t => t.kind != .WHITESPACE) = [x] ∧ RepresentsQL x e ∧ RepresentsQ x e := by
  obtain ⟨forest, hp, hF⟩ := parse_renderQ e ws hwf hl
  obtain ⟨x, hx, hr⟩ := forestOKQ_filter hF
  exact ⟨forest, x, hp, hx, hr, repQL_to_repQ hr⟩

/-- With the position of the blanks made explicit: blank leaves, the tree, blank leaves. -/
theorem Q_parse_render_shape (e : QExpr) (ws : Layout) (hwf : WFQ e) (hl : QueryLayoutOKQ e ws) :
    ∃ forest lead x trail, Grammar.parseRoot (renderQuery e ws) = .ok forest ∧
      forest = lead ++ [x] ++ trail ∧ WSTrees lead ∧ WSTrees trail ∧ RepresentsQ x e := by
  obtain ⟨forest, hp, Wt, x, Wt', hf, h1, h2, hx⟩ := parse_renderQ e ws hwf hl
  exact ⟨forest, Wt, x, Wt', hp, hf, h1, h2, repQL_to_repQ hx⟩

/-- Non-vacuity of the layout hypothesis for *every* expression: the default layout (one space at
every blank position) is admissible as soon as every written factor is spelled as one lexer word
(`UnitsLexOK`). -/
theorem Q_default_layout_ok (e : QExpr) (hwf : WFQ e) (hu : UnitsLexOK e) : QueryLayoutOKQ e [] :=
  queryLayoutOKQ_nil e hwf hu

/-! ## Stage A — evaluator -/

/-- **Evaluator on trees that represent a quantity expression.** If `t` represents `e`, the
literals and units of `e` are in scope (`UnitsOK`) and the operands of its `+`, `-`, `to` are
`Determinate`, then for every offset, log and sufficient fuel the evaluator returns a value `r`
that agrees with the specification — `siQ r = v.q` for `denote false e = .ok v` (SI value and
dimensions), the empty unit for a plain number, the dimensions and scale of `v.unit` when the
specification determines the unit — or an `err` (never a panic of the model, in particular never
the debug assertion of `Compound::new`: `C11_mul_no_assert`) when `denote false e` is an error.
Only an expression with `PowRisk` (a quantity raised to a power that is not certainly within
`i32`) may also be refused with `badArgument`. The log is untouched. -/
theorem Q_eval_represents (cfg : Cfg) (t : Tree) (e : QExpr) (off fuel : Nat) (d : List Desc)
    (h : RepresentsQ t e) (hu : UnitsOK e) (hdet : Determinate e) (hf : 2 * size t ≤ fuel) :
    OutcomeQ e d (eval cfg fuel ⟨off, t⟩ d) :=
  eval_representsQ cfg unitFacts t e off fuel d h hu hdet hf

/-- The UNIT node: `eval::unit` on a UNIT node spelling `u` succeeds with a compound that has the
dimensions and the exact scale of the specification's reading `sem` of `u` (the converse direction
of `C05_expr`). -/
theorem Q_eval_unit (x : Tree) (u : List RTerm) (sem : UnitSem) (off : Nat) (d : List Desc)
    (hx : RepUnit x u) (hu : UnitOK u) (hs : resolveAll u = some sem) :
    ∃ T, Eval.unit (⟨off, x⟩ : At).kids d = (.ok T, d) ∧ SameUnit T sem ∧ Proportional T ∧
      AllKnown T ∧ AMap.Sorted T :=
  unit_forward x u sem off d hx hu hs

/-! ## Final — the whole pipeline -/

/-- **Quantity queries.** `Eval.query` on the rendering of a well-formed quantity expression
under any admissible layout answers with exactly one result and no descriptions
(`QueryOutcomeQ`): a value that agrees with `denote false e`, or an `err` when `denote false e` is
an error (incommensurable `+`/`-`/`to`, division by zero, non-integer exponent, …). -/
theorem Q_query (cfg : Cfg) (e : QExpr) (ws : Layout) (hwf : WFQ e) (hl : QueryLayoutOKQ e ws)
    (hu : UnitsOK e) (hdet : Determinate e) :
    QueryOutcomeQ e (Eval.query cfg (renderQuery e ws)) :=
  query_renderQ cfg e ws hwf hl hu hdet

/-- Value form of `Q_query`. -/
theorem Q_query_ok (cfg : Cfg) (e : QExpr) (ws : Layout) (v : Val) (hwf : WFQ e)
    (hl : QueryLayoutOKQ e ws) (hu : UnitsOK e) (hdet : Determinate e) (hp : ¬ PowRisk e)
    (hv : denote false e = .ok v) :
    ∃ r, Eval.query cfg (renderQuery e ws) = .ok ([.ok r], []) ∧ Agree r v :=
  queryOutcome_ok (Q_query cfg e ws hwf hl hu hdet) hv hp

/-- Error form of `Q_query`. -/
theorem Q_query_err (cfg : Cfg) (e : QExpr) (ws : Layout) (x : QErr) (hwf : WFQ e)
    (hl : QueryLayoutOKQ e ws) (hu : UnitsOK e) (hdet : Determinate e)
    (hv : denote false e = .error x) :
    ∃ k s t, Eval.query cfg (renderQuery e ws) = .ok ([.error (.err k s t)], []) :=
  queryOutcome_err (Q_query cfg e ws hwf hl hu hdet) hv

/-- **Stage 1: a single quantity.** The text `x u` (number, optional blank, unit expression)
answers exactly the magnitude `x` in a unit with the dimensions and the exact scale of the
specification's reading of `u`. -/
theorem Q_query_literal (cfg : Cfg) (l : Literal) (u : List RTerm) (sem : UnitSem) (ws : Layout)
    (hl : QueryLayoutOKQ (.qty l u) ws) (h₁ : LitOKQ l) (hu : UnitOK u)
    (hs : resolveAll u = some sem) :
    ∃ r, Eval.query cfg (renderQuery (.qty l u) ws) = .ok ([.ok r], []) ∧ r.value = value l ∧
      SameUnit r.unit sem := by
  have hq := Q_query cfg (.qty l u) ws (litOKQ_wf h₁ : l.WF) hl ⟨h₁, hu⟩ trivial
  obtain ⟨r, hr, ha⟩ := queryOutcome_ok hq (denote_qty_unitOK l u sem hu hs) (powRisk_qty l u)
  obtain ⟨hsame, hval⟩ := agree_value ha (rfl : (qtyVal l sem).unit = some sem)
  refine ⟨r, hr, ?_, hsame⟩
  have hne : scale sem ≠ 0 := by rw [← hsame.2]; exact scale_semOf_ne_zero r.unit
  rw [hval]
  simp only [qtyVal]
  field_simp

/-! ## C02 — commensurability, as text -/

/-- **C02 (query).** A `+` or `-` between two quantities `x u₁`, `y u₂`, or a conversion
`x u₁ to u₂`, written as text under any admissible layout, succeeds exactly when the
specification's dimensions of the two unit expressions agree; otherwise the single result is an
error. (Both units have a dimension: a unit expression all of whose factors cancel, such as
`m/m`, is read by the tool as a plain number, which adopts any unit.) -/
theorem C02_query (cfg : Cfg) (l₁ l₂ : Literal) (u₁ u₂ : List RTerm) (s₁ s₂ : UnitSem)
    (h₁ : LitOKQ l₁) (h₂ : LitOKQ l₂) (hu₁ : UnitOK u₁) (hu₂ : UnitOK u₂)
    (hs₁ : resolveAll u₁ = some s₁) (hs₂ : resolveAll u₂ = some s₂)
    (hd₁ : dims s₁ ≠ DimVec.zero) (hd₂ : dims s₂ ≠ DimVec.zero) :
    (∀ (op : BinOp) (ws : Layout), op = .add ∨ op = .sub →
      QueryLayoutOKQ (.bin op (.qty l₁ u₁) (.qty l₂ u₂)) ws →
      ((∃ r, Eval.query cfg (renderQuery (.bin op (.qty l₁ u₁) (.qty l₂ u₂)) ws) =
          .ok ([.ok r], [])) ↔ dims s₁ = dims s₂) ∧
      (dims s₁ ≠ dims s₂ → ∃ k s t,
        Eval.query cfg (renderQuery (.bin op (.qty l₁ u₁) (.qty l₂ u₂)) ws) =
          .ok ([.error (.err k s t)], []))) ∧
    (∀ ws : Layout, QueryLayoutOKQ (.cast (.qty l₁ u₁) u₂) ws →
      ((∃ r, Eval.query cfg (renderQuery (.cast (.qty l₁ u₁) u₂) ws) = .ok ([.ok r], [])) ↔
        dims s₁ = dims s₂) ∧
      (dims s₁ ≠ dims s₂ → ∃ k s t,
        Eval.query cfg (renderQuery (.cast (.qty l₁ u₁) u₂) ws) =
          .ok ([.error (.err k s t)], []))) := by
  have hq₁ := denote_qty_unitOK l₁ u₁ s₁ hu₁ hs₁
  have hq₂ := denote_qty_unitOK l₂ u₂ s₂ hu₂ hs₂
  constructor
  · intro op ws hop hl
    have hwf : WFQ (.bin op (.qty l₁ u₁) (.qty l₂ u₂)) :=
      wfq_bin_qty op u₁ u₂ (litOKQ_wf h₁) (litOKQ_wf h₂)
    have hpow : op ≠ .pow := by rcases hop with rfl | rfl <;> decide
    have hq := Q_query cfg _ ws hwf hl ⟨⟨h₁, hu₁⟩, ⟨h₂, hu₂⟩, fun h => absurd h hpow⟩
      (determinate_addsub_qty op l₁ l₂ u₁ u₂ s₁ s₂ hu₁ hu₂ hs₁ hs₂ hd₁ hd₂)
    have hden := denote_addsub_qty op hop l₁ l₂ u₁ u₂ s₁ s₂ hq₁ hq₂
    have herr : dims s₁ ≠ dims s₂ → ∃ k s t,
        Eval.query cfg (renderQuery (.bin op (.qty l₁ u₁) (.qty l₂ u₂)) ws) =
          .ok ([.error (.err k s t)], []) := by
      intro hne
      rw [if_neg hne] at hden
      exact queryOutcome_err hq hden
    refine ⟨⟨fun ⟨r, hr⟩ => ?_, fun heq => ?_⟩, herr⟩
    · by_contra hne
      obtain ⟨k, s, t, hk⟩ := herr hne
      rw [hk] at hr
      simp at hr
    · rw [if_pos heq] at hden
      obtain ⟨r, hr, _⟩ := queryOutcome_ok hq hden (powRisk_bin_qty hpow l₁ l₂ u₁ u₂)
      exact ⟨r, hr⟩
  · intro ws hl
    have hwf : WFQ (.cast (.qty l₁ u₁) u₂) := wfq_cast_qty u₁ u₂ (litOKQ_wf h₁)
    have hq := Q_query cfg _ ws hwf hl ⟨⟨h₁, hu₁⟩, hu₂⟩
      (determinate_cast_qty l₁ u₁ u₂ s₁ s₂ hu₁ hs₁ hs₂ hd₁ hd₂)
    have hden := denote_cast_qty l₁ u₁ u₂ s₁ s₂ hq₁ hs₂ (unitOK_proportional u₂ s₂ hu₂ hs₂)
    have herr : dims s₁ ≠ dims s₂ → ∃ k s t,
        Eval.query cfg (renderQuery (.cast (.qty l₁ u₁) u₂) ws) =
          .ok ([.error (.err k s t)], []) := by
      intro hne
      rw [if_neg hne] at hden
      exact queryOutcome_err hq hden
    refine ⟨⟨fun ⟨r, hr⟩ => ?_, fun heq => ?_⟩, herr⟩
    · by_contra hne
      obtain ⟨k, s, t, hk⟩ := herr hne
      rw [hk] at hr
      simp at hr
    · rw [if_pos heq] at hden
      obtain ⟨r, hr, _⟩ := queryOutcome_ok hq hden (powRisk_cast_qty l₁ u₁ u₂)
      exact ⟨r, hr⟩

/-- **C02 (query, plain numbers).** A plain number next to a quantity adopts its unit, on
either side: `x + y u`, `x - y u`, `y u + x`, `y u - x` as text answer `x ± y` resp. `y ± x`
in the unit `u`. -/
theorem C02_query_plain (cfg : Cfg) (op : BinOp) (hop : op = .add ∨ op = .sub) (l₁ l₂ : Literal)
    (u : List RTerm) (sem : UnitSem) (h₁ : LitOKQ l₁) (h₂ : LitOKQ l₂) (hu : UnitOK u)
    (hs : resolveAll u = some sem) :
    (∀ ws, QueryLayoutOKQ (.bin op (.num l₁) (.qty l₂ u)) ws →
      ∃ r, Eval.query cfg (renderQuery (.bin op (.num l₁) (.qty l₂ u)) ws) = .ok ([.ok r], []) ∧
        r.value = (if op = .sub then value l₁ - value l₂ else value l₁ + value l₂) ∧
        SameUnit r.unit sem) ∧
    (∀ ws, QueryLayoutOKQ (.bin op (.qty l₂ u) (.num l₁)) ws →
      ∃ r, Eval.query cfg (renderQuery (.bin op (.qty l₂ u) (.num l₁)) ws) = .ok ([.ok r], []) ∧
        r.value = (if op = .sub then value l₂ - value l₁ else value l₂ + value l₁) ∧
        SameUnit r.unit sem) := by
  have hq₂ := denote_qty_unitOK l₂ u sem hu hs
  have hp := unitOK_proportional u sem hu hs
  have hpow : op ≠ .pow := by rcases hop with rfl | rfl <;> decide
  obtain ⟨hw1, hw2⟩ := wfq_num_qty op u (litOKQ_wf h₁) (litOKQ_wf h₂)
  obtain ⟨hd1, hd2⟩ := determinate_num_qty op l₁ l₂ u sem hu hs
  obtain ⟨hr1, hr2⟩ := powRisk_num_qty hpow l₁ l₂ u
  constructor
  · intro ws hl
    have hq := Q_query cfg _ ws hw1 hl ⟨h₁, ⟨h₂, hu⟩, fun h => absurd h hpow⟩ hd1
    obtain ⟨r, hr, ha⟩ := queryOutcome_ok hq (denote_addsub_num_qty op hop l₁ l₂ u sem hp hq₂) hr1
    obtain ⟨hsame, hval⟩ := agree_value ha rfl
    refine ⟨r, hr, ?_, hsame⟩
    have hne : scale sem ≠ 0 := by rw [← hsame.2]; exact scale_semOf_ne_zero r.unit
    rw [hval]
    by_cases h : op = .sub <;> simp only [h, ↓reduceIte] <;> field_simp
  · intro ws hl
    have hq := Q_query cfg _ ws hw2 hl ⟨⟨h₂, hu⟩, h₁, fun h => absurd h hpow⟩ hd2
    obtain ⟨r, hr, ha⟩ := queryOutcome_ok hq (denote_addsub_qty_num op hop l₂ l₁ u sem hp hq₂) hr2
    obtain ⟨hsame, hval⟩ := agree_value ha rfl
    refine ⟨r, hr, ?_, hsame⟩
    have hne : scale sem ≠ 0 := by rw [← hsame.2]; exact scale_semOf_ne_zero r.unit
    rw [hval]
    by_cases h : op = .sub <;> simp only [h, ↓reduceIte] <;> field_simp

/-! ## C03 — conversion, as text -/

/-- **C03 (query).** `x u₁ to u₂` as text, between commensurable units, answers
`x · scale u₁ / scale u₂` in the unit `u₂` (a unit with the dimensions and the exact scale of
`u₂`), `scale` being the specification's `∏ (10^prefix · factor)^power`. -/
theorem C03_query (cfg : Cfg) (l : Literal) (u₁ u₂ : List RTerm) (s₁ s₂ : UnitSem) (ws : Layout)
    (hl : QueryLayoutOKQ (.cast (.qty l u₁) u₂) ws) (h₁ : LitOKQ l) (hu₁ : UnitOK u₁)
    (hu₂ : UnitOK u₂) (hs₁ : resolveAll u₁ = some s₁) (hs₂ : resolveAll u₂ = some s₂)
    (hd₁ : dims s₁ ≠ DimVec.zero) (hc : dims s₁ = dims s₂) :
    ∃ r, Eval.query cfg (renderQuery (.cast (.qty l u₁) u₂) ws) = .ok ([.ok r], []) ∧
      r.value = value l * scale s₁ / scale s₂ ∧ SameUnit r.unit s₂ := by
  have hq₁ := denote_qty_unitOK l u₁ s₁ hu₁ hs₁
  have hq := Q_query cfg _ ws (wfq_cast_qty u₁ u₂ (litOKQ_wf h₁)) hl ⟨⟨h₁, hu₁⟩, hu₂⟩
    (determinate_cast_qty l u₁ u₂ s₁ s₂ hu₁ hs₁ hs₂ hd₁ (hc ▸ hd₁))
  have hden := denote_cast_qty l u₁ u₂ s₁ s₂ hq₁ hs₂ (unitOK_proportional u₂ s₂ hu₂ hs₂)
  rw [if_pos hc] at hden
  obtain ⟨r, hr, ha⟩ := queryOutcome_ok hq hden (powRisk_cast_qty l u₁ u₂)
  obtain ⟨hsame, _⟩ := ha.unit s₂ rfl
  refine ⟨r, hr, ?_, hsame⟩
  have hsi := congrArg Q.si ha.si
  simp only [siQ] at hsi
  have hne : scale s₂ ≠ 0 := by rw [← hsame.2]; exact scale_semOf_ne_zero r.unit
  rw [hsame.2] at hsi
  rw [← hsi]
  field_simp

/-! ## C04 — products, quotients, powers, as text -/

/-- **C04 (query).** Products, quotients and integer powers of quantities written as text have
the SI value and the dimensions of `Spec.SI.qmul` / `qdiv` / `qpow` applied to the readings
`⟨x · scale u, dims u⟩` of the operands: (1) `x u₁ * y u₂`; (2) `x u₁ / y u₂` — an error exactly
when `qdiv` is (a zero divisor); (3) `x u ^ n` for a literal `n` — an error when `n` is not an
integer or `qpow` is an error (zero to a negative power); the hypothesis `hfit` keeps the unit
powers within `i32` (otherwise the tool refuses with `badArgument`, `C04_pow_overflow`). -/
theorem C04_query (cfg : Cfg) (l₁ l₂ : Literal) (u₁ u₂ : List RTerm) (s₁ s₂ : UnitSem)
    (h₁ : LitOKQ l₁) (h₂ : LitOKQ l₂) (hu₁ : UnitOK u₁) (hu₂ : UnitOK u₂)
    (hs₁ : resolveAll u₁ = some s₁) (hs₂ : resolveAll u₂ = some s₂) :
    (∀ ws, QueryLayoutOKQ (.bin .mul (.qty l₁ u₁) (.qty l₂ u₂)) ws →
      ∃ r, Eval.query cfg (renderQuery (.bin .mul (.qty l₁ u₁) (.qty l₂ u₂)) ws) =
          .ok ([.ok r], []) ∧
        siQ r = qmul ⟨value l₁ * scale s₁, dims s₁⟩ ⟨value l₂ * scale s₂, dims s₂⟩) ∧
    (∀ ws, QueryLayoutOKQ (.bin .div (.qty l₁ u₁) (.qty l₂ u₂)) ws →
      match qdiv ⟨value l₁ * scale s₁, dims s₁⟩ ⟨value l₂ * scale s₂, dims s₂⟩ with
      | .ok q => ∃ r, Eval.query cfg (renderQuery (.bin .div (.qty l₁ u₁) (.qty l₂ u₂)) ws) =
          .ok ([.ok r], []) ∧ siQ r = q
      | .error _ => ∃ k s t,
          Eval.query cfg (renderQuery (.bin .div (.qty l₁ u₁) (.qty l₂ u₂)) ws) =
            .ok ([.error (.err k s t)], [])) ∧
    (∀ ws, QueryLayoutOKQ (.bin .pow (.qty l₁ u₁) (.num l₂)) ws →
      (value l₂).num.natAbs ≤ 2147483647 →
      (s₁.map (fun t => t.power.natAbs)).sum * (value l₂).num.natAbs ≤ 2147483647 →
      match (if Arith.isInt (value l₂) = true
          then qpow ⟨value l₁ * scale s₁, dims s₁⟩ (value l₂).num else .error .power) with
      | .ok q => ∃ r, Eval.query cfg (renderQuery (.bin .pow (.qty l₁ u₁) (.num l₂)) ws) =
          .ok ([.ok r], []) ∧ siQ r = q
      | .error _ => ∃ k s t,
          Eval.query cfg (renderQuery (.bin .pow (.qty l₁ u₁) (.num l₂)) ws) =
            .ok ([.error (.err k s t)], [])) := by
  have hq₁ := denote_qty_unitOK l₁ u₁ s₁ hu₁ hs₁
  have hq₂ := denote_qty_unitOK l₂ u₂ s₂ hu₂ hs₂
  refine ⟨fun ws hl => ?_, fun ws hl => ?_, fun ws hl hn hfit => ?_⟩
  · have hq := Q_query cfg _ ws (wfq_bin_qty .mul u₁ u₂ (litOKQ_wf h₁) (litOKQ_wf h₂)) hl
      ⟨⟨h₁, hu₁⟩, ⟨h₂, hu₂⟩, fun h => nomatch h⟩ ⟨trivial, trivial, fun h => by simp at h⟩
    obtain ⟨r, hr, ha⟩ := queryOutcome_ok hq (denote_mul_qty l₁ l₂ u₁ u₂ s₁ s₂ hq₁ hq₂)
      (powRisk_bin_qty (by decide) l₁ l₂ u₁ u₂)
    exact ⟨r, hr, ha.si⟩
  · have hq := Q_query cfg _ ws (wfq_bin_qty .div u₁ u₂ (litOKQ_wf h₁) (litOKQ_wf h₂)) hl
      ⟨⟨h₁, hu₁⟩, ⟨h₂, hu₂⟩, fun h => nomatch h⟩ ⟨trivial, trivial, fun h => by simp at h⟩
    have hden := denote_div_qty l₁ l₂ u₁ u₂ s₁ s₂ hq₁ hq₂
    simp only [qtyVal] at hden
    cases hd : qdiv ⟨value l₁ * scale s₁, dims s₁⟩ ⟨value l₂ * scale s₂, dims s₂⟩ with
    | ok q =>
      rw [hd] at hden
      obtain ⟨r, hr, ha⟩ := queryOutcome_ok hq hden (powRisk_bin_qty (by decide) l₁ l₂ u₁ u₂)
      exact ⟨r, hr, ha.si⟩
    | error x =>
      rw [hd] at hden
      exact queryOutcome_err hq hden
  · have hq := Q_query cfg _ ws (wfq_pow_qty u₁ (litOKQ_wf h₁) (litOKQ_wf h₂)) hl
      ⟨⟨h₁, hu₁⟩, h₂, fun _ => ⟨l₂, rfl⟩⟩ ⟨trivial, trivial, fun h => by simp at h⟩
    have hden := denote_pow_qty l₁ l₂ u₁ s₁ hq₁
    simp only [qtyVal] at hden
    have hrisk := powRisk_pow_qty l₁ l₂ u₁ s₁ hs₁ hn hfit
    by_cases hi : Arith.isInt (value l₂) = true
    · rw [if_pos hi] at hden ⊢
      cases hp : qpow ⟨value l₁ * scale s₁, dims s₁⟩ (value l₂).num with
      | ok q =>
        rw [hp] at hden
        obtain ⟨r, hr, ha⟩ := queryOutcome_ok hq hden hrisk
        exact ⟨r, hr, ha.si⟩
      | error x =>
        rw [hp] at hden
        exact queryOutcome_err hq hden
    · rw [if_neg hi] at hden ⊢
      exact queryOutcome_err hq hden

/-! ## C13 — the SI reading of a whole query -/

/-- **C13 (query).** For ANY quantity expression in scope — any nesting of `+ - * / ^ to` and
parentheses over literals with and without units — the SI reading of the result of its text is
`denote`: the single result `r` has `siQ r = v.q` for `denote false e = .ok v`, and the result
is an error when `denote false e` is. Hence every law of `Spec.SI` (`Props/C13`: `qadd_comm`,
`qmul_comm`, `qmul_assoc`, `qdistrib`, …) holds for whole queries; three instances are stated
below (`C13_query_add_comm`, `C13_query_mul_comm`, `C13_query_mul_assoc`). -/
theorem C13_query (cfg : Cfg) (e : QExpr) (ws : Layout) (hwf : WFQ e) (hl : QueryLayoutOKQ e ws)
    (hu : UnitsOK e) (hdet : Determinate e) (hp : ¬ PowRisk e) :
    match denote false e with
    | .ok v => ∃ r, Eval.query cfg (renderQuery e ws) = .ok ([.ok r], []) ∧ siQ r = v.q
    | .error _ => ∃ k s t, Eval.query cfg (renderQuery e ws) = .ok ([.error (.err k s t)], []) := by
  have hq := Q_query cfg e ws hwf hl hu hdet
  cases hv : denote false e with
  | ok v =>
    obtain ⟨r, hr, ha⟩ := queryOutcome_ok hq hv hp
    exact ⟨r, hr, ha.si⟩
  | error x => exact queryOutcome_err hq hv

/-- Whenever a query text answers a value at all, that value has the SI reading of `denote`
(no hypothesis on powers). -/
theorem C13_query_value (cfg : Cfg) (e : QExpr) (ws : Layout) (r : Numeric) (hwf : WFQ e)
    (hl : QueryLayoutOKQ e ws) (hu : UnitsOK e) (hdet : Determinate e)
    (hr : Eval.query cfg (renderQuery e ws) = .ok ([.ok r], [])) :
    ∃ v, denote false e = .ok v ∧ siQ r = v.q := by
  obtain ⟨v, hv, ha⟩ := queryOutcome_value (Q_query cfg e ws hwf hl hu hdet) hr
  exact ⟨v, hv, ha.si⟩

/-- **C13 (a + b = b + a, as text).** -/
theorem C13_query_add_comm (cfg : Cfg) (a b : QExpr) (ws ws' : Layout) (r₁ r₂ : Numeric)
    (hwf : WFQ (.bin .add a b)) (hwf' : WFQ (.bin .add b a))
    (hl : QueryLayoutOKQ (.bin .add a b) ws) (hl' : QueryLayoutOKQ (.bin .add b a) ws')
    (hu : UnitsOK (.bin .add a b)) (hdet : Determinate (.bin .add a b))
    (hdet' : Determinate (.bin .add b a))
    (h₁ : Eval.query cfg (renderQuery (.bin .add a b) ws) = .ok ([.ok r₁], []))
    (h₂ : Eval.query cfg (renderQuery (.bin .add b a) ws') = .ok ([.ok r₂], [])) :
    siQ r₁ = siQ r₂ := by
  have hu' : UnitsOK (.bin .add b a) := ⟨hu.2.1, hu.1, fun h => nomatch h⟩
  obtain ⟨v₁, hv₁, e₁⟩ := C13_query_value cfg _ ws r₁ hwf hl hu hdet h₁
  obtain ⟨v₂, hv₂, e₂⟩ := C13_query_value cfg _ ws' r₂ hwf' hl' hu' hdet' h₂
  rw [e₁, e₂]
  exact denote_add_comm hv₁ hv₂

/-- **C13 (a · b = b · a, as text).** -/
theorem C13_query_mul_comm (cfg : Cfg) (a b : QExpr) (ws ws' : Layout) (r₁ r₂ : Numeric)
    (hwf : WFQ (.bin .mul a b)) (hwf' : WFQ (.bin .mul b a))
    (hl : QueryLayoutOKQ (.bin .mul a b) ws) (hl' : QueryLayoutOKQ (.bin .mul b a) ws')
    (hu : UnitsOK (.bin .mul a b)) (hdet : Determinate (.bin .mul a b))
    (h₁ : Eval.query cfg (renderQuery (.bin .mul a b) ws) = .ok ([.ok r₁], []))
    (h₂ : Eval.query cfg (renderQuery (.bin .mul b a) ws') = .ok ([.ok r₂], [])) :
    siQ r₁ = siQ r₂ := by
  have hu' : UnitsOK (.bin .mul b a) := ⟨hu.2.1, hu.1, fun h => nomatch h⟩
  have hdet' : Determinate (.bin .mul b a) := ⟨hdet.2.1, hdet.1, fun h => by simp at h⟩
  obtain ⟨v₁, hv₁, e₁⟩ := C13_query_value cfg _ ws r₁ hwf hl hu hdet h₁
  obtain ⟨v₂, hv₂, e₂⟩ := C13_query_value cfg _ ws' r₂ hwf' hl' hu' hdet' h₂
  rw [e₁, e₂]
  exact denote_mul_comm hv₁ hv₂

/-- **C13 ((a · b) · c = a · (b · c), as text)**: `a * b * c` against `a * (b * c)`. -/
theorem C13_query_mul_assoc (cfg : Cfg) (a b c : QExpr) (ws ws' : Layout) (r₁ r₂ : Numeric)
    (hwf : WFQ (.bin .mul (.bin .mul a b) c)) (hwf' : WFQ (.bin .mul a (.paren (.bin .mul b c))))
    (hl : QueryLayoutOKQ (.bin .mul (.bin .mul a b) c) ws)
    (hl' : QueryLayoutOKQ (.bin .mul a (.paren (.bin .mul b c))) ws')
    (hu : UnitsOK (.bin .mul (.bin .mul a b) c)) (hdet : Determinate (.bin .mul (.bin .mul a b) c))
    (h₁ : Eval.query cfg (renderQuery (.bin .mul (.bin .mul a b) c) ws) = .ok ([.ok r₁], []))
    (h₂ : Eval.query cfg (renderQuery (.bin .mul a (.paren (.bin .mul b c))) ws') =
      .ok ([.ok r₂], [])) :
    siQ r₁ = siQ r₂ := by
  have hu' : UnitsOK (.bin .mul a (.paren (.bin .mul b c))) :=
    ⟨hu.1.1, ⟨hu.1.2.1, hu.2.1, fun h => nomatch h⟩, fun h => nomatch h⟩
  have hdet' : Determinate (.bin .mul a (.paren (.bin .mul b c))) :=
    ⟨hdet.1.1, ⟨hdet.1.2.1, hdet.2.1, fun h => by simp at h⟩, fun h => by simp at h⟩
  obtain ⟨v₁, hv₁, e₁⟩ := C13_query_value cfg _ ws r₁ hwf hl hu hdet h₁
  obtain ⟨v₂, hv₂, e₂⟩ := C13_query_value cfg _ ws' r₂ hwf' hl' hu' hdet' h₂
  rw [e₁, e₂]
  exact denote_mul_assoc hv₁ hv₂

/-! ## Non-vacuity and tests (labelled as such)

`1ft+ 2in to cm` — number glued to its unit, no blank before `+`, `to` binding loosest — meets
every hypothesis of the theorems above; its value is 35.56 cm = 0.3556 m. The sample literals,
units (`natLit`, `T`, `ft`, `inch`, `cm`, `m`, `s`, `kmps2`), the expression `exCast` with its layout
`exLayout`, and the checks `unitOK_ft` … are in `Lemmas/QQExamples.lean`. -/

/-- Non-vacuity of `Q_lex_render`, `Q_parse_render`, `Q_eval_represents`, `Q_query`, `C13_query`:
the example satisfies all hypotheses at once. -/
theorem exCast_in_scope :
    String.ofList (renderQuery exCast exLayout) = "1ft+ 2in to cm" ∧ WFQ exCast ∧
    QueryLayoutOKQ exCast exLayout ∧ UnitsOK exCast ∧ Determinate exCast ∧ ¬ PowRisk exCast ∧
    (denote false exCast).toOption.map (fun v => (v.q.si, v.q.dim, v.plain)) =
      some (889 / 2500, [0, 0, 1, 0, 0, 0, 0, 0], false) := by
  have hden : denote false (.bin .add (.qty (natLit [1]) ft) (.qty (natLit [2]) inch)) = _ :=
    denote_addsub_qty .add (Or.inl rfl) (natLit [1]) (natLit [2]) ft inch _ _
      (denote_qty_unitOK _ ft _ unitOK_ft (unitOK_resolve_rs unitOK_ft))
      (denote_qty_unitOK _ inch _ unitOK_inch (unitOK_resolve_rs unitOK_inch))
  rw [if_pos (by decide +kernel)] at hden
  refine ⟨by decide +kernel, ?_, ?_, ?_, ?_, ?_, by decide +kernel⟩
  · simp [exCast, WFQ, qprio, BinOp.prio, natLit, Literal.WF, fracDigits]
  · simp [QueryLayoutOKQ, LayoutOKQ, exCast, exLayout, Blank, blank1, rest1, afterQ, nextBlank,
      Quantity.render, natLit, Literal.WF, fracDigits, startsUnsignedQ, endsUnit]
    exact ⟨⟨⟨unitLexOK_of_check (by decide +kernel), glueOK_of_check (by decide +kernel)⟩,
      by decide, unitLexOK_of_check (by decide +kernel), glueOK_of_check (by decide +kernel)⟩,
      unitLexOK_of_check (by decide +kernel), by decide⟩
  · exact ⟨⟨⟨litOKQ_digit 1 (by omega), unitOK_ft⟩, ⟨litOKQ_digit 2 (by omega), unitOK_inch⟩,
      fun h => nomatch h⟩, unitOK_cm⟩
  · refine ⟨determinate_addsub_qty .add _ _ ft inch _ _ unitOK_ft unitOK_inch
      (unitOK_resolve_rs unitOK_ft) (unitOK_resolve_rs unitOK_inch) (by decide +kernel)
      (by decide +kernel), fun v sem hv hsem => ?_⟩
    rw [hden] at hv
    rw [unitOK_resolve_rs unitOK_cm] at hsem
    cases hv
    cases hsem
    exact Or.inr ⟨by decide +kernel, by decide +kernel⟩
  · simp [exCast, PowRisk]

/-- Test (labelled as a test): the model's whole pipeline on this text answers 35.56 cm. -/
example : (Eval.query { db := fun _ => .nothing } (renderQuery exCast exLayout)).toOption.map
    (fun r => r.1.map (fun x => x.toOption.map (fun n => (n.value, n.unit)))) =
      some [some (889 / 25, [(.base .Meter, ⟨1, -2⟩)])] := by decide +kernel

/-- Non-vacuity of `C02_query` / `C03_query`: `1 ft` and `cm` are commensurable units with a
dimension, `1 ft` and `s` are not commensurable; the conversion factor of `C03_query` is the
textbook 30.48. -/
example : dims (ft.map rs) = dims (cm.map rs) ∧ dims (ft.map rs) ≠ DimVec.zero ∧
    dims (ft.map rs) ≠ dims (s.map rs) ∧
    value (natLit [1]) * scale (ft.map rs) / scale (cm.map rs) = 762 / 25 := by decide +kernel

/-- Non-vacuity of `C04_query` (3): `2 km/s^2 ^ 3` — the sum of the written powers is 3, times
the exponent 3 is far within `i32`; `qpow` gives 8·10⁹ m³/s⁶. -/
example : UnitOK kmps2 ∧ ((kmps2.map rs).map (fun t => t.power.natAbs)).sum = 3 ∧
    Arith.isInt (value (natLit [3])) = true ∧
    (qpow ⟨value (natLit [2]) * scale (kmps2.map rs), dims (kmps2.map rs)⟩
      (value (natLit [3])).num).toOption.map (fun q => (q.si, q.dim)) =
      some (8000000000, [0, 0, 3, -6, 0, 0, 0, 0]) :=
  ⟨unitOK_kmps2, by decide +kernel, by decide +kernel, by decide +kernel⟩

/-! ## What the hypotheses exclude — findings, pinned -/

/-- **The layout hypothesis is needed** (`LayoutOKQ`: a blank before `*`, `/`, `^`, `to` after a
unit). `2 m* 3 s` — no blank between the unit and the `*` — is not the product of `2 m` and `3 s`:
the grammar continues the unit expression, the forest is ONE literal with unit (and the evaluator
answers `illegalUnitNumber`). -/
theorem Q_layout_needed :
    let e := QExpr.bin .mul (.qty (natLit [2]) m) (.qty (natLit [3]) s)
    let ws : Layout := [[], [' '], [], [' '], [' '], []]
    String.ofList (renderQuery e ws) = "2 m* 3 s" ∧
    (Grammar.parseRoot (renderQuery e ws)).toOption.map (fun f => f.map Tree.kind) =
      some [.WITH_UNIT] := by decide +kernel

/-- The full statement one would like: `Q_query` without `Determinate`. It is FALSE for the model
(and the program), see `Q_query_full_statement_fails`; what is proved is `Q_query`. -/
def Q_query_full_statement : Prop :=
  ∀ (cfg : Cfg) (e : QExpr) (ws : Layout), WFQ e → QueryLayoutOKQ e ws → UnitsOK e →
    QueryOutcomeQ e (Eval.query cfg (renderQuery e ws))

/-- `(2 m / 1 m) + 3 s`. -/
def exDimless : QExpr :=
  .bin .add (.paren (.bin .div (.qty (natLit [2]) m) (.qty (natLit [1]) m))) (.qty (natLit [3]) s)

/-- **Finding (an empty unit is a plain number).** `(2 m / 1 m) + 3 s`: the specification
refuses (`2 m / 1 m` is dimensionless, `3 s` is a time: `dims`), the tool answers `5 s` — the
quotient comes out with the empty unit, which the tool cannot tell from a plain number, and a
plain number adopts the unit of the other operand. -/
theorem Q_finding_dimensionless_adopts :
    (denote false exDimless).toOption.isNone = true ∧
    (Eval.query { db := fun _ => .nothing } (renderQuery exDimless [])).toOption.map
      (fun r => r.1.map (fun x => x.toOption.map (fun n => (n.value, n.unit)))) =
        some [some (5, [(.base .Second, ⟨1, 0⟩)])] := by decide +kernel

theorem Q_query_full_statement_fails : ¬ Q_query_full_statement := by
  intro hfull
  have hm := unitOK_m
  have hs := unitOK_s
  have h := hfull { db := fun _ => .nothing } exDimless []
    (by simp [exDimless, WFQ, qprio, BinOp.prio, natLit, Literal.WF, fracDigits])
    (Q_default_layout_ok _
      (by simp [exDimless, WFQ, qprio, BinOp.prio, natLit, Literal.WF, fracDigits])
      ⟨⟨unitLexOK_of_check (by decide +kernel), unitLexOK_of_check (by decide +kernel)⟩,
        unitLexOK_of_check (by decide +kernel)⟩)
    ⟨⟨⟨litOKQ_digit 2 (by omega), hm⟩, ⟨litOKQ_digit 1 (by omega), hm⟩, fun h => nomatch h⟩,
      ⟨litOKQ_digit 3 (by omega), hs⟩, fun h => nomatch h⟩
  obtain ⟨h1, h2⟩ := Q_finding_dimensionless_adopts
  unfold QueryOutcomeQ at h
  cases hd : denote false exDimless with
  | ok v => rw [hd] at h1; simp [Except.toOption] at h1
  | error x =>
    rw [hd] at h
    obtain ⟨k, s', t, hk⟩ := h
    rw [hk] at h2
    simp [Except.toOption] at h2

/-- **Finding (a plain number next to a product).** `2 m * 3 s + 1`: the specification leaves
the unit of a product undetermined, so it cannot say what the plain `1` means and answers
`other`; the tool adopts the unit it displays and answers `7 m⋅s`. (`Determinate` excludes it.) -/
theorem Q_finding_product_adopts :
    let e := QExpr.bin .add (.bin .mul (.qty (natLit [2]) m) (.qty (natLit [3]) s)) (.num (natLit [1]))
    (denote false e).toOption.isNone = true ∧
    (Eval.query { db := fun _ => .nothing } (renderQuery e [])).toOption.map
      (fun r => r.1.map (fun x => x.toOption.map (fun n => (n.value, n.unit)))) =
        some [some (7, [(.base .Meter, ⟨1, 0⟩), (.base .Second, ⟨1, 0⟩)])] := by decide +kernel

/-- **Finding (one unit, two prefixes).** `1 km*mm`: the specification reads 1 m² (`resolve` is
factor by factor), the tool refuses with `prefixMismatch` — `UnitOK` requires `Coherent`. -/
theorem Q_finding_prefix_mismatch :
    let e := QExpr.qty (natLit [1]) [T "k" "m" 1, T "m" "m" 1]
    (denote false e).toOption.map (fun v => (v.q.si, v.q.dim)) = some (1, [0, 0, 2, 0, 0, 0, 0, 0]) ∧
    (Eval.query { db := fun _ => .nothing } (renderQuery e [])).toOption.map
      (fun r => r.1.map (fun x => x.toOption.isSome)) = some [false] := by decide +kernel

/-- **Finding (ambiguous spelling).** The factor "prefix `m`, name `in`" (milli-inch) is written
`min`, which the tool reads as the minute — `TermOK.reads` excludes such spellings (cf. the
longest-match remarks of `Props/C05`). -/
theorem Q_finding_ambiguous_word :
    let e := QExpr.qty (natLit [1]) [T "m" "in" 1]
    (denote false e).toOption.map (fun v => v.q.dim) = some [0, 0, 1, 0, 0, 0, 0, 0] ∧
    (Eval.query { db := fun _ => .nothing } (renderQuery e [])).toOption.map
      (fun r => r.1.map (fun x => x.toOption.map (fun n => (n.value, n.unit)))) =
        some [some (1, [(.derived 1021968384, ⟨1, 0⟩)])] ∧
    SI.dimsOf (.derived 1021968384) = [0, 0, 0, 1, 0, 0, 0, 0] := by decide +kernel

/-!
## Remarks

* **Scope.** Literals with proportional units only (`TermOK`: no `°C`/`°F`), no looked-up facts
  (`WFQ`/`UnitsOK` are `False` on `fact`), the exponent of `^` is a literal (`UnitsOK`).
* **`Determinate`** is a sufficient condition for the tool's "empty unit = plain number" to agree
  with the specification's "plain = written without unit" at every `+`, `-`, `to`
  (`Q_finding_dimensionless_adopts`, `Q_finding_product_adopts` show it cannot simply be dropped).
  It is not necessary: e.g. `1 m/ft + 1 in/yd` (two dimensionless quantities with non-empty
  units) is fine for the tool but outside `AddOK`.
* **`PowRisk`.** `Eval.pow` refuses with `badArgument` when a unit power times the exponent leaves
  `i32` (`C04_pow_overflow`); the specification has no such bound. For bases whose unit is
  determined by the text (literals, casts, sums of such) `powBound` bounds the powers and
  `PowSafe` removes the alternative (`C04_query` (3)); for a product or quotient raised to a
  power the alternative stays in `Q_query` / `Q_eval_represents`.
* **`UnitOK`.** `Coherent` and `TermOK` range over ALL factors, also those with power 0, which
  `renderUnit` does not write: slightly stronger than needed, harmless.
* **Layout.** `LayoutOKQ` is exactly what the lexer and grammar need, with one corner left out:
  a number glued to a unit that is the single letter `e`/`E` (`GlueOK` asks for a following
  character; no such unit name exists in the tables).
-/

end Anything.Props.QuantityQuery
