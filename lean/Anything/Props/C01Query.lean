import Anything.Props.C06
/-!
# C01, end to end — every well-formed numeric expression evaluates to its exact value

`Props/C01.lean` proves that the evaluator's five operators are the exact-arithmetic
operations. Here that is composed with the parser theorems of C06: the whole pipeline —
lexer, parser, evaluator — applied to the text of ANY well-formed expression (any size of
literals, any nesting depth, any operator mix, parentheses, `round`/`floor`/`ceil`) under
any admissible layout of blanks returns exactly the rational that exact arithmetic
(`Spec.Arith.denote`, an independent evaluator over `Rat`) assigns to it — or an error when
exact arithmetic has none (division by zero, zero to a negative power).
-/

namespace Anything.Props.C01
open Anything Anything.Eval Anything.Spec Anything.Spec.Arith Anything.Spec.Decimal Anything.C06 Anything.Props.C06

/-- **C01 (expressions, value case).** -/
theorem C01_expression_exact (cfg : Cfg) (e : NExpr) (ws : Layout) (v : Rat) (hwf : WF e)
    (hl : QueryLayoutOK e ws) (hlit : LitsOK e) (hro : RoundOK e) (hv : denote e = .ok v) :
    Eval.query cfg (renderQuery e ws) = .ok ([.ok { value := v, unit := [] }], []) :=
  C06_query_ok cfg e ws v hwf hl hlit hro hv

/-- **C01 (expressions, both cases).** One result: the exact value, or an error when exact
arithmetic reports one — never a number in that case. -/
theorem C01_expression (cfg : Cfg) (e : NExpr) (ws : Layout) (hwf : WF e)
    (hl : QueryLayoutOK e ws) (hlit : LitsOK e) (hro : RoundOK e) :
    QueryOutcome (denote e) (Eval.query cfg (renderQuery e ws)) :=
  C06_query cfg e ws hwf hl hlit hro

end Anything.Props.C01
