import Anything.Model.Cli
import Anything.Spec.PinnedIds
import Anything.Lemmas.PrintedParse
import Mathlib.Tactic.ByContra
import Anything.Generated.KnobsCli
/-!
# C19 — the command line prints exactly what the library computed

Decision logic of the result loop of `src/bin/any.rs` (`Model/Cli.lean`), stated
outright for **every** list of library results and every value.
-/

namespace Anything.Props.C19
open Anything Anything.Cli

/-- The numeric part of a printed value. -/
def numPart (exact : Bool) (v : Numeric) : List Char :=
  if exact then
    (if v.value.den ≠ 1 then Display.intStr v.value.num ++ ['/'] ++ Display.natStr v.value.den
     else Display.intStr v.value.num)
  else Display.fmt { limit := 12, exponentLimit := 12, showContinuation := true } v.value

/-- **C19 (shape of a line).** numeric part, then a space exactly when the unit has a
numerator part, then the unit — pluralised only if the value is not one. -/
theorem C19_line_shape (exact : Bool) (v : Numeric) :
    renderValue exact v =
      numPart exact v ++ (if Compound.hasNumerator v.unit then [' '] else [])
        ++ UnitDisplay.compound v.unit (v.value ≠ 1) := rfl

/-- **C19 (exact mode, integers).** No slash and no denominator when the denominator is one. -/
theorem C19_exact_integer (v : Numeric) (h : v.value.den = 1) :
    numPart true v = Display.intStr v.value.num := by
  simp [numPart, h]

/-- **C19 (exact mode, fractions).** Numerator, slash, denominator — of the reduced fraction. -/
theorem C19_exact_fraction (v : Numeric) (h : v.value.den ≠ 1) :
    numPart true v = Display.intStr v.value.num ++ ['/'] ++ Display.natStr v.value.den ∧
      Nat.Coprime v.value.num.natAbs v.value.den := by
  refine ⟨by simp [numPart, h], v.value.reduced⟩

/-- **C19 (decimal mode).** Twelve digits, exponent threshold twelve, continuation mark on. -/
theorem C19_decimal (v : Numeric) :
    numPart false v = Display.fmt { limit := 12, exponentLimit := 12, showContinuation := true } v.value := rfl

/-- **C19 (space before the unit).** Present exactly when some unit has a positive power. -/
theorem C19_unit_space (exact : Bool) (v : Numeric) :
    (∃ e ∈ v.unit, e.2.power > 0) ↔
      renderValue exact v = numPart exact v ++ [' '] ++ UnitDisplay.compound v.unit (v.value ≠ 1) := by
  rw [C19_line_shape]
  constructor
  · intro ⟨e, he, hp⟩
    have : Compound.hasNumerator v.unit = true := by
      unfold Compound.hasNumerator
      rw [List.any_eq_true]
      exact ⟨e, he, by simpa using hp⟩
    simp [this]
  · intro h
    by_contra hne
    have : Compound.hasNumerator v.unit = false := by
      unfold Compound.hasNumerator
      rw [List.any_eq_false]
      intro e he
      have : ¬ e.2.power > 0 := fun hp => hne ⟨e, he, hp⟩
      simpa using this
    simp only [this, Bool.false_eq_true, ↓reduceIte, List.append_nil, List.append_assoc] at h
    have := congrArg List.length h
    simp at this

/-- **C19 (no plural for one).** When the value is exactly one the unit is printed in
the singular. -/
theorem C19_singular_for_one (exact : Bool) (v : Numeric) (h : v.value = 1) :
    renderValue exact v =
      numPart exact v ++ (if Compound.hasNumerator v.unit then [' '] else [])
        ++ UnitDisplay.compound v.unit false := by
  rw [C19_line_shape]; simp [h]

/-- **C19 (plural applies to a lone numerator unit only).** -/
theorem C19_plural_scope (c : Compound) (h : (c.filter (fun e => e.2.power ≥ 0)).length ≠ 1) :
    UnitDisplay.compound c true = UnitDisplay.compound c false := by
  unfold UnitDisplay.compound
  have : ((c.filter (fun e => e.2.power ≥ 0)).length == 1) = false := by simpa using h
  simp [this]

/-- **C19 (one item per result, in order).** -/
theorem C19_one_per_result (exact : Bool) (rs : List (Except EvalErr Numeric)) :
    (render exact rs).length = rs.length := by simp [render]

/-- **C19 (errors do not abort).** Whatever precedes and follows an error is rendered
exactly as it would be without it; the error itself becomes one diagnostic with the
library's kind and source range. -/
theorem C19_errors_do_not_abort (exact : Bool) (pre post : List (Except EvalErr Numeric)) (k : ErrKind)
    (s e : Nat) :
    render exact (pre ++ [.error (.err k s e)] ++ post) =
      render exact pre ++ [.diagnostic k s e] ++ render exact post := by
  simp [render]

/-- **C19 (values are printed from the library result).** -/
theorem C19_value_item (exact : Bool) (pre post : List (Except EvalErr Numeric)) (v : Numeric) :
    render exact (pre ++ [.ok v] ++ post) =
      render exact pre ++ [.line (renderValue exact v)] ++ render exact post := by
  simp [render]

/-- Non-vacuity: `3/2 m` in exact mode. -/
example : String.ofList (renderValue true { value := 3 / 2, unit := [(.base .Meter, { power := 1, pfx := 0 })] })
    = "3/2 m" := by decide +kernel


/-- **C19 (the display specification of the source is the model's).** `src/bin/any.rs`
sets twelve digits, exponent threshold twelve, continuation mark on (re-extracted on
every run): the specification `C19_decimal` says `renderValue` uses. -/
theorem C19_cli_spec :
    (⟨Anything.Generated.Knobs.cliLimit, Anything.Generated.Knobs.cliExponentLimit,
      Anything.Generated.Knobs.cliShowContinuation⟩ : Display.Spec) =
    { limit := 12, exponentLimit := 12, showContinuation := true } := rfl

/-- **C19 (display names are the recorded ones).** The singular and plural spelling of
every derived unit in the table extracted from the current source are those recorded at
the pinned commit (`Spec/PinnedIds.lean`, human-reviewed): the model's — and the binary's —
choice between them is then the property's "pluralised only when the value is not one". -/
theorem C19_names_pinned :
    Anything.Spec.Pinned.names.all (fun p =>
      (Anything.Generated.units.find? (fun u => u.id == p.1)).map (fun u => (u.sing, u.plur)) == some (p.2.1, p.2.2)) = true := by
  decide +kernel

/-! ### The printed power of a unit -/

/-- Reading a superscript digit back. -/
def unsuperscript (c : Char) : Option Nat :=
  (List.range 10).find? (fun d => UnitDisplay.superscript d == c)

theorem unsuperscript_superscript (d : Nat) (h : d < 10) :
    unsuperscript (UnitDisplay.superscript d) = some d := by
  have : d = 0 ∨ d = 1 ∨ d = 2 ∨ d = 3 ∨ d = 4 ∨ d = 5 ∨ d = 6 ∨ d = 7 ∨ d = 8 ∨ d = 9 := by omega
  rcases this with h | h | h | h | h | h | h | h | h | h <;> subst h <;> decide

/-- The superscript text the model writes for a power `p ≥ 2` (nothing is written for 1). -/
def powerText (p : Nat) : List Char :=
  if p < 10 then [UnitDisplay.superscript p] else (Display.natDigits p).map UnitDisplay.superscript

/-- **C19 (the printed power is the power).** For every power the superscript digits, read
back most significant first, give exactly that power: all digits are written, in order —
so the text the binary is compared with names the unit power the library computed. -/
theorem C19_power_text (p : Nat) :
    (powerText p).mapM unsuperscript = some (Display.natDigits p) ∧
      Spec.Decimal.digitsVal (Display.natDigits p) = p := by
  refine ⟨?_, Anything.Lemmas.Printed.natDigits_val p⟩
  have hd := Anything.Lemmas.Printed.natDigits_lt p
  unfold powerText
  split
  · rename_i h
    have : Display.natDigits p = [p] := by
      have : p = 0 ∨ p = 1 ∨ p = 2 ∨ p = 3 ∨ p = 4 ∨ p = 5 ∨ p = 6 ∨ p = 7 ∨ p = 8 ∨ p = 9 := by omega
      rcases this with h | h | h | h | h | h | h | h | h | h <;> subst h <;> decide
    rw [this]
    simp [List.mapM_cons, unsuperscript_superscript p h]
  · generalize Display.natDigits p = ds at hd
    induction ds with
    | nil => rfl
    | cons d rest ih =>
      simp only [List.map_cons, List.mapM_cons, unsuperscript_superscript d (hd d (by simp))]
      rw [ih (fun x hx => hd x (List.mem_cons_of_mem _ hx))]
      rfl

end Anything.Props.C19
