import Anything.Model.Cli
namespace Anything.Props.C19
theorem C19_placeholder : True := trivial
end Anything.Props.C19
