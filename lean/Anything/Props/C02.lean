import Anything.Lemmas.Scale
import Anything.Model.Eval
/-!
# C02 — `+`, `-` and `to` are allowed exactly between commensurable units

`Commensurable a b` is the specification's notion (`Spec.SI.dims` of the two unit
expressions agree). The theorems quantify over **all** compounds — any list of
units from the extracted table with any integer powers and prefixes, however
spelled — and all rational magnitudes.
-/

namespace Anything.Props.C02
open Anything Anything.Eval Anything.Spec

/-- Both sides reduce to the same powers of the base dimensions. -/
def Commensurable (a b : Compound) : Prop := SI.dims (semOf a) = SI.dims (semOf b)

instance (a b : Compound) : Decidable (Commensurable a b) := by unfold Commensurable; exact inferInstance

/-- **C02 (the comparison inside `Compound::factor`).** For non-empty compounds of
proportional units the conversion is accepted exactly when both sides have the same
base dimensions; never an error. -/
theorem C02_factor_iff (a b : Compound) (ha : a ≠ []) (hb : b ≠ []) (pa : Proportional a)
    (pb : Proportional b) (v : Rat) :
    (∃ w, Compound.factor a b v = .ok (some w)) ↔ Commensurable a b := by
  rw [factor_prop a b ha hb pa pb v]
  unfold Commensurable
  split <;> simp_all

theorem C02_factor_refused (a b : Compound) (ha : a ≠ []) (hb : b ≠ []) (pa : Proportional a)
    (pb : Proportional b) (v : Rat) (h : ¬ Commensurable a b) :
    Compound.factor a b v = .ok none := by
  rw [factor_prop a b ha hb pa pb v]
  unfold Commensurable at h
  simp [h]

/-- **C02 (`+` and `-`, accepted case).** Commensurable quantities are added in the
left operand's unit. -/
theorem C02_add_ok (s e : Nat) (x y : Numeric) (sub : Bool) (d : List Desc)
    (hx : x.unit ≠ []) (hy : y.unit ≠ []) (px : Proportional x.unit) (py : Proportional y.unit)
    (h : Commensurable x.unit y.unit) :
    ∃ v, Eval.add s e x y sub d = (.ok { value := v, unit := x.unit }, d) := by
  unfold Eval.add
  rw [factor_prop x.unit y.unit hx hy px py]
  unfold Commensurable at h
  have ex : x.unit.isEmpty = false := by cases hu : x.unit <;> simp_all
  simp only [h, ↓reduceIte, ex, Bool.false_eq_true, pure]
  exact ⟨_, rfl⟩

/-- **C02 (`+` and `-`, rejected case).** Incommensurable quantities yield an
error, never a number — whatever the magnitudes. -/
theorem C02_add_error (s e : Nat) (x y : Numeric) (sub : Bool) (d : List Desc)
    (hx : x.unit ≠ []) (hy : y.unit ≠ []) (px : Proportional x.unit) (py : Proportional y.unit)
    (h : ¬ Commensurable x.unit y.unit) :
    Eval.add s e x y sub d = (.error (.err .illegalOperation s e), d) := by
  unfold Eval.add
  rw [C02_factor_refused x.unit y.unit hx hy px py y.value h]
  rfl

/-- **C02 (`+`/`-` succeed iff commensurable).** -/
theorem C02_add_iff (s e : Nat) (x y : Numeric) (sub : Bool) (d : List Desc)
    (hx : x.unit ≠ []) (hy : y.unit ≠ []) (px : Proportional x.unit) (py : Proportional y.unit) :
    (∃ r, Eval.add s e x y sub d = (.ok r, d)) ↔ Commensurable x.unit y.unit := by
  constructor
  · intro ⟨r, hr⟩
    by_contra hc
    rw [C02_add_error s e x y sub d hx hy px py hc] at hr
    simp at hr
  · intro h
    obtain ⟨v, hv⟩ := C02_add_ok s e x y sub d hx hy px py h
    exact ⟨_, hv⟩

/-- The `to` step of an operation chain, given the evaluated target unit and the
evaluated left-hand side (`opFold`, `OP_CAST` branch). -/
theorem opFold_cast (cfg : Cfg) (fuel : Nat) (node op rhs : At) (rest : List At) (base : Delayed)
    (d d1 d2 : List Desc) (target : Compound) (lhs : Numeric)
    (hop : op.t.kind = .OP_CAST)
    (ht : Eval.unit rhs.kids d = (.ok target, d1))
    (hl : force cfg fuel base d1 = (.ok lhs, d2)) :
    opFold cfg (fuel + 1) node base (op :: rhs :: rest) d =
      match Compound.factor target lhs.unit lhs.value with
      | .ok (some v) => opFold cfg fuel node (.num { value := v, unit := target }) rest d2
      | .ok none => (.error (.err .illegalCast node.off node.stop), d2)
      | .error _ => (.error (.err .conversionNotPossible node.off node.stop), d2) := by
  rw [opFold]
  simp only [hop, bind, ht, hl]
  cases Compound.factor target lhs.unit lhs.value with
  | error e => rfl
  | ok o => cases o <;> rfl

/-- **C02 (`to`, rejected case).** A cast between incommensurable units is an error
(`illegalCast`), never a number. -/
theorem C02_cast_error (cfg : Cfg) (fuel : Nat) (node op rhs : At) (rest : List At) (base : Delayed)
    (d d1 d2 : List Desc) (target : Compound) (lhs : Numeric)
    (hop : op.t.kind = .OP_CAST)
    (ht : Eval.unit rhs.kids d = (.ok target, d1))
    (hl : force cfg fuel base d1 = (.ok lhs, d2))
    (h1 : target ≠ []) (h2 : lhs.unit ≠ []) (p1 : Proportional target) (p2 : Proportional lhs.unit)
    (h : ¬ Commensurable target lhs.unit) :
    opFold cfg (fuel + 1) node base (op :: rhs :: rest) d =
      (.error (.err .illegalCast node.off node.stop), d2) := by
  rw [opFold_cast cfg fuel node op rhs rest base d d1 d2 target lhs hop ht hl,
    C02_factor_refused target lhs.unit h1 h2 p1 p2 lhs.value h]

/-- **C02 (`to`, accepted case).** A cast between commensurable units continues the
chain with a value in the target unit. -/
theorem C02_cast_ok (cfg : Cfg) (fuel : Nat) (node op rhs : At) (rest : List At) (base : Delayed)
    (d d1 d2 : List Desc) (target : Compound) (lhs : Numeric)
    (hop : op.t.kind = .OP_CAST)
    (ht : Eval.unit rhs.kids d = (.ok target, d1))
    (hl : force cfg fuel base d1 = (.ok lhs, d2))
    (h1 : target ≠ []) (h2 : lhs.unit ≠ []) (p1 : Proportional target) (p2 : Proportional lhs.unit)
    (h : Commensurable target lhs.unit) :
    opFold cfg (fuel + 1) node base (op :: rhs :: rest) d =
      opFold cfg fuel node
        (.num { value := lhs.value * scaleC lhs.unit / scaleC target, unit := target }) rest d2 := by
  rw [opFold_cast cfg fuel node op rhs rest base d d1 d2 target lhs hop ht hl,
    factor_prop target lhs.unit h1 h2 p1 p2]
  unfold Commensurable at h
  simp [h]

/-- **C02 (spelling does not matter).** Acceptance depends on the two sides only
through their base dimensions: respelling either side (derived units, prefixes,
products, quotients, cancelling factors) changes nothing. -/
theorem C02_spelling_invariant (a a' b b' : Compound) (v v' : Rat)
    (ha : a ≠ []) (hb : b ≠ []) (ha' : a' ≠ []) (hb' : b' ≠ [])
    (pa : Proportional a) (pb : Proportional b) (pa' : Proportional a') (pb' : Proportional b')
    (h1 : SI.dims (semOf a) = SI.dims (semOf a')) (h2 : SI.dims (semOf b) = SI.dims (semOf b')) :
    (∃ w, Compound.factor a b v = .ok (some w)) ↔ (∃ w, Compound.factor a' b' v' = .ok (some w)) := by
  rw [C02_factor_iff a b ha hb pa pb, C02_factor_iff a' b' ha' hb' pa' pb']
  unfold Commensurable
  rw [h1, h2]

/-- **C02 (plain number on the left).** It adopts the quantity's unit. -/
theorem C02_plain_left (s e : Nat) (x : Rat) (y : Numeric) (sub : Bool) (d : List Desc) :
    Eval.add s e { value := x, unit := [] } y sub d =
      (.ok { value := if sub then x - y.value else x + y.value, unit := y.unit }, d) := by
  simp [Eval.add, Compound.factor, pure]

/-- **C02 (plain number on the right).** Same unit, whichever the order. -/
theorem C02_plain_right (s e : Nat) (x : Rat) (y : Numeric) (sub : Bool) (d : List Desc) :
    Eval.add s e y { value := x, unit := [] } sub d =
      (.ok { value := if sub then y.value - x else y.value + x, unit := y.unit }, d) := by
  cases hu : y.unit with
  | nil => simp [Eval.add, Compound.factor, pure, hu]
  | cons a r => simp [Eval.add, Compound.factor, pure, hu]

/-! ### Non-vacuity: the cancelling spellings the property names -/

def J : UnitKey := .derived 3766052723
def N : UnitKey := .derived 353022001
def m : UnitKey := .base .Meter
def s : UnitKey := .base .Second
def one : State := { power := 1, pfx := 0 }
def inv : State := { power := -1, pfx := 0 }

/-- `J/N` and `m` are commensurable, `J/N` and `s` are not. -/
example : Commensurable [(N, inv), (J, one)] [(m, one)] := by decide +kernel
example : ¬ Commensurable [(N, inv), (J, one)] [(s, one)] := by decide +kernel

end Anything.Props.C02
