import Anything.Model.Eval
import Anything.Spec.Quantity
namespace Anything.Props.C02
theorem C02_placeholder : True := trivial
end Anything.Props.C02
