import Anything.Lemmas.EvalSim
/-!
# C18 — describing a query does not change its answer and reports exactly the facts used

Model: `Anything/Model/Eval.lean`. The evaluator threads a description log
through the whole computation (`EvalM`); the only step that reads the database
and the `describe` flag is `Eval.lookup`.

Method (`Lemmas/EvalSim.lean`): `built_eval` shows, by one induction on the fuel,
that `eval cfg fuel a` and `eval cfg' fuel a` are *the same program* (`Built`:
log-free steps, lookups, sequencing) whenever `cfg` and `cfg'` agree on `debug`;
every statement below is an induction over that program structure. All theorems
hold for **every** tree (well-formed or not), every database (any function
`List Char → LookupResult`), every amount of fuel and every incoming log.

Notation: `{ cfg with describe := true }` is the describing run,
`{ cfg with describe := false }` the plain one.
-/

namespace Anything.Props.C18
open Anything Anything.Eval

/-! ## The answer does not depend on `describe` (nor on the incoming log) -/

/-- **C18 (same value).** Evaluating a tree with descriptions enabled returns the same
result — value, unit or error — as without, whatever the two incoming logs are. -/
theorem C18_same_value (cfg : Cfg) (fuel : Nat) (a : At) (d d' : List Desc) :
    (eval { cfg with describe := true } fuel a d).1
      = (eval { cfg with describe := false } fuel a d').1 :=
  (built_eval { cfg with describe := true } { cfg with describe := false } rfl fuel a).sameVal
    rfl d d'

/-- The same for any two configurations over one database (same `debug`): the
`describe` flags and the logs are irrelevant to the result. -/
theorem C18_same_value_general (cfg cfg' : Cfg) (hdb : cfg'.db = cfg.db)
    (hdbg : cfg'.debug = cfg.debug) (fuel : Nat) (a : At) (d d' : List Desc) :
    (eval cfg fuel a d).1 = (eval cfg' fuel a d').1 :=
  (built_eval cfg cfg' hdbg fuel a).sameVal hdb d d'

/-- **C18 (same value, all results of a query).** -/
theorem C18_same_value_queryLoop (cfg : Cfg) (as : List At) (d d' : List Desc) :
    (queryLoop { cfg with describe := true } as d).1
      = (queryLoop { cfg with describe := false } as d').1 := by
  simp only [queryLoop_eq]
  apply List.map_congr_left
  intro a _
  exact C18_same_value cfg (qFuel a) a [] []

/-- **C18 (same value, `query` on source text).** Parsing does not look at the
configuration; the results agree. -/
theorem C18_same_value_query (cfg : Cfg) (src : List Char) :
    (query { cfg with describe := true } src).map Prod.fst
      = (query { cfg with describe := false } src).map Prod.fst := by
  unfold query
  cases Grammar.parseRoot src with
  | error e => rfl
  | ok forest =>
    simp only [Except.map]
    exact congrArg Except.ok (C18_same_value_queryLoop cfg _ [] [])

/-! ## Without `describe` nothing is reported -/

/-- **C18 (no describe, no log).** -/
theorem C18_no_describe_no_log (cfg : Cfg) (fuel : Nat) (a : At) (d : List Desc) :
    (eval { cfg with describe := false } fuel a d).2 = d :=
  (built_eval { cfg with describe := false } { cfg with describe := false } rfl fuel a).noLog
    rfl d

theorem C18_no_describe_no_log_queryLoop (cfg : Cfg) (as : List At) (d : List Desc) :
    (queryLoop { cfg with describe := false } as d).2 = d := by
  simp only [queryLoop_eq]
  have : (List.map (fun a => (eval { cfg with describe := false } (qFuel a) a []).2)
      (live as)).flatten = [] := by
    simp only [C18_no_describe_no_log, List.flatten_eq_nil_iff, List.mem_map]
    rintro l ⟨_, _, rfl⟩
    rfl
  rw [this, List.append_nil]

theorem C18_no_describe_no_log_query (cfg : Cfg) (src : List Char)
    (rs : List (Except EvalErr Numeric)) (log : List Desc)
    (h : query { cfg with describe := false } src = .ok (rs, log)) : log = [] := by
  unfold query at h
  cases hp : Grammar.parseRoot src with
  | error e => simp only [hp] at h; cases h
  | ok forest =>
    simp only [hp, Except.ok.injEq] at h
    have := C18_no_describe_no_log_queryLoop cfg (kidsAt 0 forest) []
    rw [h] at this
    exact this

/-! ## With `describe` the log grows by a suffix that reports database facts -/

/-- **C18 (the log only grows, uniformly).** The describing run appends to the incoming
log a list `t = (run on the empty log).2` that does not depend on the incoming log —
and neither does the result. (Holds for failing runs too: the log survives errors.) -/
theorem C18_log_appends (cfg : Cfg) (fuel : Nat) (a : At) (d : List Desc) :
    eval { cfg with describe := true } fuel a d
      = ((eval { cfg with describe := true } fuel a []).1,
         d ++ (eval { cfg with describe := true } fuel a []).2) := by
  obtain ⟨r, t, hr, -⟩ := (built_eval { cfg with describe := true } _ rfl fuel a).log
  have h0 := hr []
  simp only [List.nil_append] at h0
  rw [hr d, h0]

/-- `C18_log_appends` in existential form. -/
theorem C18_log_appends_exists (cfg : Cfg) (fuel : Nat) (a : At) :
    ∃ r t, ∀ d, eval { cfg with describe := true } fuel a d = (r, d ++ t) :=
  ⟨_, _, C18_log_appends cfg fuel a⟩

theorem C18_log_appends_queryLoop (cfg : Cfg) (as : List At) (d : List Desc) :
    queryLoop { cfg with describe := true } as d
      = ((queryLoop { cfg with describe := true } as []).1,
         d ++ (queryLoop { cfg with describe := true } as []).2) := by
  simp only [queryLoop_eq, List.nil_append]

/-- **C18 (the log is sound).** Every entry appended by the describing run — successful
or not — is a phrase that the database maps to a constant, paired with *that*
constant's description. (`cfg.db` is a function, so the constant is unique.) -/
theorem C18_log_sound (cfg : Cfg) (fuel : Nat) (a : At) (d : List Desc)
    (r : Except EvalErr Numeric) (t : List Desc)
    (h : eval { cfg with describe := true } fuel a d = (r, d ++ t)) :
    ∀ x ∈ t, ∃ c, cfg.db x.phrase = .found c ∧ x.description = c.description := by
  obtain ⟨r', t', hr, ht⟩ := (built_eval { cfg with describe := true } _ rfl fuel a).log
  rw [hr d] at h
  simp only [Prod.mk.injEq] at h
  have := List.append_cancel_left h.2
  subst this
  exact ht

theorem C18_log_sound_queryLoop (cfg : Cfg) (as : List At) (d : List Desc)
    (rs : List (Except EvalErr Numeric)) (t : List Desc)
    (h : queryLoop { cfg with describe := true } as d = (rs, d ++ t)) :
    ∀ x ∈ t, ∃ c, cfg.db x.phrase = .found c ∧ x.description = c.description := by
  rw [queryLoop_eq] at h
  simp only [Prod.mk.injEq] at h
  have := List.append_cancel_left h.2
  subst this
  intro x hx
  simp only [List.mem_flatten, List.mem_map] at hx
  obtain ⟨l, ⟨a, _, rfl⟩, hx⟩ := hx
  exact C18_log_sound cfg (qFuel a) a [] (eval { cfg with describe := true } (qFuel a) a []).1 _
    (by rw [List.nil_append]) x hx

/-- **C18 (a lookup reports the constant whose value it returns).** The one step that
writes to the log: on a WORD or SENTENCE node whose text the database knows, the value
and unit returned and the description appended come from the same constant `c`. -/
theorem C18_lookup_reports (cfg : Cfg) (fuel : Nat) (a : At) (c : Fact) (d : List Desc)
    (hk : a.t.kind = .WORD ∨ a.t.kind = .SENTENCE) (hdb : cfg.db a.t.text = .found c) :
    eval { cfg with describe := true } (fuel + 1) a d
      = (.ok { value := c.value, unit := c.unit },
         d ++ [{ phrase := a.t.text, description := c.description }]) := by
  rcases hk with hk | hk <;> simp only [eval, hk, lookup_apply, hdb, if_true]

/-- A lookup of a phrase the database does not know fails and reports nothing. -/
theorem C18_lookup_missing (cfg : Cfg) (fuel : Nat) (a : At) (d : List Desc)
    (hk : a.t.kind = .WORD ∨ a.t.kind = .SENTENCE) (hdb : cfg.db a.t.text = .nothing) :
    eval { cfg with describe := true } (fuel + 1) a d
      = (.error (.err .missing a.off a.stop), d) := by
  rcases hk with hk | hk <;> simp only [eval, hk, lookup_apply, hdb]

/-! ## Exactly the facts used -/

/-- **C18 (the log is complete).** If the describing run succeeds with value `v` and
appends `t`, then under ANY database `db'` that agrees with `cfg.db` on the phrases
reported in `t` the run is the same — same value, same log. The answer depends on the
database only through the reported facts. -/
theorem C18_log_complete (cfg : Cfg) (db' : Db) (fuel : Nat) (a : At) (d : List Desc)
    (v : Numeric) (t : List Desc)
    (h : eval { cfg with describe := true } fuel a d = (.ok v, d ++ t))
    (hag : ∀ x ∈ t, db' x.phrase = cfg.db x.phrase) :
    eval { cfg with describe := true, db := db' } fuel a d = (.ok v, d ++ t) :=
  (built_eval { cfg with describe := true } { cfg with describe := true, db := db' } rfl fuel a
    ).complete_ok rfl rfl d v t h hag

/-- **C18 (complete, failing runs included).** Whatever the outcome `r` of the describing
run, a database agreeing on the reported phrases gives the same outcome and log — unless
`r` is itself a failed lookup (`missing` / `lookupError`, which names the one further
phrase consulted by its span instead of a description). -/
theorem C18_log_complete_general (cfg : Cfg) (db' : Db) (fuel : Nat) (a : At) (d : List Desc)
    (r : Except EvalErr Numeric) (t : List Desc)
    (h : eval { cfg with describe := true } fuel a d = (r, d ++ t))
    (hag : ∀ x ∈ t, db' x.phrase = cfg.db x.phrase) :
    eval { cfg with describe := true, db := db' } fuel a d = (r, d ++ t) ∨ LookupFail r :=
  (built_eval { cfg with describe := true } { cfg with describe := true, db := db' } rfl fuel a
    ).complete rfl rfl d r t h hag

/-- **C18 (complete, whole query).** If no result of the query is a failed lookup, the
list of results and the log are unchanged under any database agreeing on the log. -/
theorem C18_log_complete_queryLoop (cfg : Cfg) (db' : Db) (as : List At) (d : List Desc)
    (rs : List (Except EvalErr Numeric)) (t : List Desc)
    (h : queryLoop { cfg with describe := true } as d = (rs, d ++ t))
    (hok : ∀ r ∈ rs, ¬ LookupFail r)
    (hag : ∀ x ∈ t, db' x.phrase = cfg.db x.phrase) :
    queryLoop { cfg with describe := true, db := db' } as d = (rs, d ++ t) := by
  rw [← h]
  rw [queryLoop_eq] at h
  simp only [Prod.mk.injEq] at h
  obtain ⟨hrs, ht⟩ := h
  have ht := List.append_cancel_left ht
  have key : ∀ a ∈ live as, eval { cfg with describe := true, db := db' } (qFuel a) a []
      = eval { cfg with describe := true } (qFuel a) a [] := by
    intro a ha
    have h1 : eval { cfg with describe := true } (qFuel a) a []
        = ((eval { cfg with describe := true } (qFuel a) a []).1,
           [] ++ (eval { cfg with describe := true } (qFuel a) a []).2) := by simp
    rcases C18_log_complete_general cfg db' (qFuel a) a [] _ _ h1 (fun x hx => hag x (by
      rw [← ht]
      simp only [List.mem_flatten, List.mem_map]
      exact ⟨_, ⟨a, ha, rfl⟩, hx⟩)) with h2 | h2
    · rw [h2]; simp
    · exact absurd h2 (hok _ (by rw [← hrs]; exact List.mem_map.2 ⟨a, ha, rfl⟩))
  simp only [queryLoop_eq, Prod.mk.injEq, List.append_cancel_left_eq]
  constructor
  · exact List.map_congr_left fun a ha => by rw [key a ha]
  · congr 1
    exact List.map_congr_left fun a ha => by rw [key a ha]

/-- **C18 (every reported fact was used).** Conversely, each reported phrase `p` really
was looked up: remove it from the database (`db'` has no fact for `p` and is `cfg.db`
elsewhere) and the run no longer succeeds — it fails at a lookup. Together with
`C18_log_complete`: the log is *exactly* the set of phrases consulted by a
successful run. -/
theorem C18_log_necessary (cfg : Cfg) (db' : Db) (fuel : Nat) (a : At) (d : List Desc)
    (v : Numeric) (t : List Desc) (p : List Char)
    (h : eval { cfg with describe := true } fuel a d = (.ok v, d ++ t))
    (hp : p ∈ t.map (·.phrase))
    (hag : ∀ s, s ≠ p → db' s = cfg.db s) (hnf : ∀ c, db' p ≠ .found c) :
    ∃ e d2, eval { cfg with describe := true, db := db' } fuel a d = (.error e, d2)
      ∧ IsLookupFail e :=
  (built_eval { cfg with describe := true } { cfg with describe := true, db := db' } rfl fuel a
    ).necessary rfl rfl p hag hnf d v t h hp

/-! ## Order -/

/-- **C18 (order, sequencing).** The log of `m` followed by `f` is the log of `m`
followed by the log of what `f` does with `m`'s value — and just the log of `m` if `m`
fails. This is the definition of the evaluator's monad; the evaluator is a nest of such
sequencings (`built_all`), so the log lists the lookups in evaluation order. -/
theorem C18_log_order_seq {α β : Type} (m : EvalM α) (f : α → EvalM β) (d : List Desc) :
    ((m >>= f) d).2 = match m d with
      | (.ok x, d1) => (f x d1).2
      | (.error _, d1) => d1 := by
  simp only [bind_apply]
  generalize m d = p
  rcases p with ⟨r, d1⟩
  cases r <;> rfl

/-- **C18 (order, whole query).** The log of a query is the incoming log followed by the
logs of its root children, concatenated in source order; the result list is the list of
their isolated results. -/
theorem C18_log_order_queryLoop (cfg : Cfg) (as : List At) (d : List Desc) :
    queryLoop cfg as d =
      ((live as).map (fun a => (eval cfg (qFuel a) a []).1),
       d ++ ((live as).map (fun a => (eval cfg (qFuel a) a []).2)).flatten) :=
  queryLoop_eq cfg as d

/-- **C18 (order, binary operation).** An OPERATION node with exactly one operator
(`l op r`, `op` one of `+ - * / implicit-mul ^`) evaluates its RIGHT operand first, then
its left operand, then combines the two values with the log-free `arith` step. -/
theorem C18_eval_binary (cfg : Cfg) (fuel : Nat) (a l op r : At)
    (hk : a.t.kind = .OPERATION)
    (hkids : a.kids.filter (fun k => k.t.hasChildren) = [l, op, r])
    (hop : IsArith op.t.kind) :
    eval cfg (fuel + 3) a =
      (do let rv ← eval cfg (fuel + 1) r
          let lv ← eval cfg fuel l
          arith cfg op.t.kind a.off a.stop lv rv) :=
  eval_binary cfg fuel a l op r hk hkids hop

/-- … hence its log is: the right operand's lookups, then (if the right operand
succeeded) the left operand's lookups, and nothing else. -/
theorem C18_log_order_binary (cfg : Cfg) (fuel : Nat) (a l op r : At) (d : List Desc)
    (hk : a.t.kind = .OPERATION)
    (hkids : a.kids.filter (fun k => k.t.hasChildren) = [l, op, r])
    (hop : IsArith op.t.kind) :
    (eval cfg (fuel + 3) a d).2 = match eval cfg (fuel + 1) r d with
      | (.ok _, d1) => (eval cfg fuel l d1).2
      | (.error _, d1) => d1 := by
  rw [eval_binary cfg fuel a l op r hk hkids hop]
  simp only [bind_apply]
  generalize eval cfg (fuel + 1) r d = p1
  rcases p1 with ⟨e1 | rv, d1⟩
  · rfl
  · simp only
    generalize eval cfg fuel l d1 = p2
    rcases p2 with ⟨e2 | lv, d2⟩
    · rfl
    · obtain ⟨ra, hra⟩ := neutral_arith cfg op.t.kind a.off a.stop lv rv
      simp only [hra]

/-! ## Several queries against one database -/

/-- **C18 (isolation).** The results of evaluating `as` followed by `bs` in one go (one
database, one shared log) are the results of `as` followed by the results of `bs`, each
evaluated on its own with ANY `describe` flag and ANY incoming log. -/
theorem C18_isolated (cfg : Cfg) (as bs : List At) (b₁ b₂ : Bool) (d d₁ d₂ : List Desc) :
    (queryLoop cfg (as ++ bs) d).1
      = (queryLoop { cfg with describe := b₁ } as d₁).1
        ++ (queryLoop { cfg with describe := b₂ } bs d₂).1 := by
  simp only [queryLoop_eq, live_append, List.map_append]
  congr 1
  · exact List.map_congr_left fun a _ =>
      C18_same_value_general cfg { cfg with describe := b₁ } rfl rfl (qFuel a) a [] []
  · exact List.map_congr_left fun a _ =>
      C18_same_value_general cfg { cfg with describe := b₂ } rfl rfl (qFuel a) a [] []

/-- **C18 (isolation, each query).** Every root child gets the result it has when it is
the only query, whatever log (`f a`) that isolated evaluation starts from. -/
theorem C18_isolated_each (cfg : Cfg) (as : List At) (d : List Desc) (f : At → List Desc) :
    (queryLoop cfg as d).1 = as.flatMap (fun a => (queryLoop cfg [a] (f a)).1) := by
  induction as generalizing d with
  | nil => rfl
  | cons a rest ih =>
    have h := C18_isolated cfg [a] rest cfg.describe cfg.describe d (f a) d
    simp only [List.singleton_append] at h
    rw [h, List.flatMap_cons, ih d]

/-- **C18 (isolation, varying orders).** Evaluating the same queries in another order
gives the same results, in that other order. -/
theorem C18_isolated_perm (cfg : Cfg) (as as' : List At) (d d' : List Desc)
    (h : as.Perm as') : (queryLoop cfg as d).1.Perm (queryLoop cfg as' d').1 := by
  simp only [queryLoop_eq]
  exact (h.filter _).map _

/-! ## Non-vacuity: a concrete database and the tree of `pi * 2 + e`

`sumT` is what `Grammar.parseRoot` returns for `pi * 2 + e` (ids as syntree assigns
them). `db0` knows `pi` and `e`; `db1` agrees with it on those two phrases and fails on
every other phrase; `db2` is `db0` without `e`. -/

namespace Demo

def db0 : Db := fun s =>
  if s = ['p', 'i'] then .found ⟨3, [], ['r', 'a', 't', 'i', 'o']⟩
  else if s = ['e'] then .found ⟨2, [], ['E', 'u', 'l', 'e', 'r']⟩ else .nothing

def db1 : Db := fun s =>
  if s = ['p', 'i'] then .found ⟨3, [], ['r', 'a', 't', 'i', 'o']⟩
  else if s = ['e'] then .found ⟨2, [], ['E', 'u', 'l', 'e', 'r']⟩ else .error

def db2 : Db := fun s =>
  if s = ['p', 'i'] then .found ⟨3, [], ['r', 'a', 't', 'i', 'o']⟩ else .nothing

def ws (i : Nat) : Tree := .tok i .WHITESPACE [' ']
def piT : Tree := .node 0 .WORD [.tok 1 .WORD ['p', 'i']]
def eT : Tree := .node 13 .WORD [.tok 14 .WORD ['e']]
def prodT : Tree := .node 8 .OPERATION
  [piT, ws 2, .node 3 .OP_MUL [.tok 4 .STAR ['*']], ws 5, .node 7 .NUMBER [.tok 6 .NUMBER ['2']]]
def sumT : Tree := .node 15 .OPERATION
  [prodT, ws 9, .node 10 .OP_ADD [.tok 11 .PLUS ['+']], ws 12, eT]

def cfg0 : Cfg := { db := db0 }
def log0 : List Desc :=
  [⟨['e'], ['E', 'u', 'l', 'e', 'r']⟩, ⟨['p', 'i'], ['r', 'a', 't', 'i', 'o']⟩]

end Demo
open Demo

/-- The describing run of `pi * 2 + e`: value 8, and the two facts in evaluation order
(right operand `e` first). -/
theorem C18_demo_run (d : List Desc) :
    eval { cfg0 with describe := true } 10 ⟨0, sumT⟩ d = (.ok ⟨8, []⟩, d ++ log0) := by
  rw [C18_log_appends]
  have : eval { cfg0 with describe := true } 10 ⟨0, sumT⟩ [] = (.ok ⟨8, []⟩, log0) := by
    with_unfolding_all rfl
  rw [this]

/-- `db1` agrees with `db0` on the two reported phrases (and differs elsewhere). -/
theorem C18_demo_agree : ∀ x ∈ log0, db1 x.phrase = cfg0.db x.phrase := by
  intro x hx
  simp only [log0, List.mem_cons, List.not_mem_nil, or_false] at hx
  rcases hx with rfl | rfl <;> simp [db0, db1, cfg0]

/-- `C18_same_value`, `C18_no_describe_no_log` on the example: same value 8, no log. -/
example : eval { cfg0 with describe := false } 10 ⟨0, sumT⟩ log0 = (.ok ⟨8, []⟩, log0) := by
  apply Prod.ext
  · rw [← C18_same_value cfg0 10 ⟨0, sumT⟩ [] log0, C18_demo_run]
  · exact C18_no_describe_no_log cfg0 10 ⟨0, sumT⟩ log0

/-- Hypotheses of `C18_log_complete` are satisfiable non-trivially: a successful run with a
non-empty report, and a *different* database agreeing on the reported phrases. -/
example : ∃ (cfg : Cfg) (db' : Db) (fuel : Nat) (a : At) (d : List Desc) (v : Numeric)
    (t : List Desc),
    eval { cfg with describe := true } fuel a d = (.ok v, d ++ t) ∧ t ≠ [] ∧
    (∀ x ∈ t, db' x.phrase = cfg.db x.phrase) ∧ db' ['x'] ≠ cfg.db ['x'] :=
  ⟨cfg0, db1, 10, ⟨0, sumT⟩, [], ⟨8, []⟩, log0, C18_demo_run [], by decide, C18_demo_agree,
    by simp [cfg0, db0, db1]⟩

/-- … and the conclusion then gives the run under `db1`. -/
example : eval { db := db1, describe := true } 10 ⟨0, sumT⟩ [] = (.ok ⟨8, []⟩, [] ++ log0) :=
  C18_log_complete cfg0 db1 10 ⟨0, sumT⟩ [] ⟨8, []⟩ log0 (C18_demo_run []) C18_demo_agree

/-- Hypotheses of `C18_log_necessary` are satisfiable: `e` is reported; `db2` is `db0`
without `e`. The run under `db2` fails at the lookup of `e`. -/
example : ∃ e d2, eval { db := db2, describe := true } 10 ⟨0, sumT⟩ [] = (.error e, d2)
    ∧ IsLookupFail e :=
  C18_log_necessary cfg0 db2 10 ⟨0, sumT⟩ [] ⟨8, []⟩ log0 ['e'] (C18_demo_run []) (by decide)
    (by intro s hs; simp only [db2, cfg0, db0, hs, if_false])
    (by intro c; simp [db2])

/-- The exception in `C18_log_complete_general` is needed: under `db2` the run fails at a
lookup having reported nothing, and `db0` agrees with `db2` on that empty report but
succeeds. -/
example : (eval { db := db2, describe := true } 10 ⟨0, sumT⟩ []).2 = [] ∧
    ((eval { db := db2, describe := true } 10 ⟨0, sumT⟩ []).1 matches .error (.err .missing 9 10))
    := by decide +kernel

/-- `C18_log_order_binary` applies to `sumT` (its hypotheses hold). -/
example : (⟨0, sumT⟩ : At).t.kind = .OPERATION ∧
    (⟨0, sumT⟩ : At).kids.filter (fun k => k.t.hasChildren)
      = [⟨0, prodT⟩, ⟨7, .node 10 .OP_ADD [.tok 11 .PLUS ['+']]⟩, ⟨9, eT⟩] ∧
    IsArith (Tree.node 10 .OP_ADD [.tok 11 .PLUS ['+']]).kind :=
  ⟨rfl, by with_unfolding_all rfl, .inl rfl⟩

/-- `C18_isolated` on two queries sharing one log: the second result does not see the
first one's log. -/
example : (queryLoop { cfg0 with describe := true } [⟨0, sumT⟩, ⟨0, ws 0⟩, ⟨0, eT⟩] []).1
    = (queryLoop cfg0 [⟨0, sumT⟩] []).1 ++ (queryLoop cfg0 [⟨0, ws 0⟩, ⟨0, eT⟩] log0).1 :=
  C18_isolated { cfg0 with describe := true } [⟨0, sumT⟩] [⟨0, ws 0⟩, ⟨0, eT⟩] false false [] [] log0

example : (queryLoop { cfg0 with describe := true } [⟨0, sumT⟩, ⟨0, ws 0⟩, ⟨0, eT⟩] []).2
    = log0 ++ [⟨['e'], ['E', 'u', 'l', 'e', 'r']⟩] := by decide +kernel

end Anything.Props.C18
