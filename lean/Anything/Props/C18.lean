import Anything.Model.Cbor
namespace Anything.Props.C18
theorem C18_placeholder : True := trivial
end Anything.Props.C18
