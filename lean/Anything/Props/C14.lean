import Anything.Model.Cbor
namespace Anything.Props.C14
theorem C14_placeholder : True := trivial
end Anything.Props.C14
