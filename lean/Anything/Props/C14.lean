import Anything.Lemmas.Index
/-!
# C14 — fact lookups do not depend on how the index was built

Abstract index (`Model/Index.lean`): segments of documents, a build parameterised by the
number of indexing workers and a *schedule* (which worker takes which document, in which
order the workers' segments end up), top-1 ranking under an arbitrary score with ties
broken by index order. Proved: with ONE worker — which is what `src/db.rs` asks for,
re-extracted from the source on every run — every schedule yields the same index, so the
in-memory, first on-disk and reopened on-disk sessions answer every query alike, ties
included; with several workers the answer is still schedule-independent whenever the top
score is unique, and is NOT otherwise (counterexample). tantivy's scheduler and its `f32`
BM25 scores are runtime behaviour outside the model (partial; covered by repeated real
builds in the correspondence).
-/

namespace Anything.Props.C14
open Anything Anything.Index

/-- **C14 (the source asks for one indexing thread, everywhere).** Every index-writer
construction in `src/db.rs` is `writer_with_num_threads(1, _)`. -/
theorem C14_one_thread : Generated.Db.writers.all (· == some 1) = true ∧ Generated.Db.writers ≠ [] := by
  decide

/-- A schedule is admissible for `w` workers when the segment order is a permutation of
the workers. -/
def Admissible (w : Nat) (σ : Schedule) : Prop := σ.order.Perm (List.range w)

theorem takenBy_one (σ : Schedule) (docs : List Doc) (i : Nat) : takenBy σ 1 0 i docs = docs := by
  induction docs generalizing i with
  | nil => rfl
  | cons d rest ih => simp [takenBy, Nat.mod_one, ih]

/-- **C14 (one worker: the index is the shipped order, whatever the schedule).** -/
theorem C14_single_writer (σ : Schedule) (h : Admissible 1 σ) (docs : List Doc) :
    build 1 σ docs = [docs] := by
  unfold Admissible at h
  have : σ.order = [0] := by
    have := h.length_eq
    simp only [List.range_one, List.length_cons, List.length_nil] at this
    match ho : σ.order, this with
    | [x], _ =>
      rw [ho] at h
      have := h.subset (by simp : x ∈ [x])
      simp at this
      rw [this]
  simp [build, this, takenBy_one]

/-- **C14 (one worker: every session answers alike).** For any score (ties included) and
any two admissible schedules the top document is the same. -/
theorem C14_single_writer_lookup (σ σ' : Schedule) (h : Admissible 1 σ) (h' : Admissible 1 σ')
    (docs : List Doc) (score : Doc → Option Nat) :
    top1 score (build 1 σ docs) = top1 score (build 1 σ' docs) := by
  rw [C14_single_writer σ h, C14_single_writer σ' h']

/-- The three kinds of session the property names. A reopened session reads the index an
earlier on-disk session committed. -/
inductive Session | inMemory | onDiskFirst | reopened

/-- The index a session answers from: built from the shipped documents with the number of
threads the source asks for, under whatever schedule that build happened to have. -/
def sessionIndex (schedules : Session → Schedule) (s : Session) : Idx :=
  match s with
  | .inMemory => build 1 (schedules .inMemory) shippedDocs
  | .onDiskFirst => build 1 (schedules .onDiskFirst) shippedDocs
  | .reopened => build 1 (schedules .onDiskFirst) shippedDocs

/-- **C14 (sessions).** In-memory, first on-disk and reopened sessions return the same
constant for every query (every score function), including queries several constants
match equally well. -/
theorem C14_sessions (schedules : Session → Schedule) (h : ∀ s, Admissible 1 (schedules s))
    (score : Doc → Option Nat) (s s' : Session) :
    top1 score (sessionIndex schedules s) = top1 score (sessionIndex schedules s') := by
  cases s <;> cases s' <;> simp only [sessionIndex] <;>
    exact C14_single_writer_lookup _ _ (h _) (h _) _ _

/-- **C14 (any number of workers, no tie at the top).** If one document strictly outscores
all others, every arrangement of the same documents into segments returns it. -/
theorem C14_tie_free (ix ix' : Idx) (hperm : ix.flatten.Perm ix'.flatten) (score : Doc → Option Nat)
    (d0 : Doc) (s0 : Nat) (hd : d0 ∈ ix.flatten) (hs : score d0 = some s0)
    (huniq : ∀ d ∈ ix.flatten, d ≠ d0 → ∀ s, score d = some s → s < s0) :
    top1 score ix = top1 score ix' := by
  rw [top1_unique_max score ix d0 s0 hd hs huniq,
    top1_unique_max score ix' d0 s0 (hperm.subset hd) hs
      (fun d hd' => huniq d (hperm.symm.subset hd'))]

/-- **C14 (the hypotheses are needed).** With two workers and two equally scored documents
two schedules disagree — which is what eight indexing threads did before the repair
recorded in `known_findings.jsonl` (af518f7). -/
theorem C14_counterexample :
    let a : Doc := ⟨[['p']], 0⟩
    let b : Doc := ⟨[['p']], 1⟩
    let σ : Schedule := ⟨fun i => i, [0, 1]⟩
    let σ' : Schedule := ⟨fun i => i, [1, 0]⟩
    top1 (fun _ => some 1) (build 2 σ [a, b]) = some a ∧ top1 (fun _ => some 1) (build 2 σ' [a, b]) = some b := by
  decide

/-- Non-vacuity: the shipped documents, and an admissible schedule. -/
example : Admissible 1 ⟨fun _ => 0, [0]⟩ ∧ shippedDocs.length = Generated.facts.length := by
  refine ⟨List.Perm.refl _, ?_⟩
  have : ∀ (l : List Generated.FactRow) (i : Nat), (docsFrom i l).length = l.length := by
    intro l; induction l with
    | nil => intro i; rfl
    | cons r rest ih => intro i; simp [docsFrom, ih]
  exact this _ _

end Anything.Props.C14
