import Anything.Lemmas.UQCast
import Anything.Lemmas.UQCallEval
import Anything.Lemmas.UQPhrase
import Anything.Lemmas.UQExamples
/-!
# The whole expression language END TO END (C02, C03, C04, C13, C16, C18 for query TEXT with
units AND looked-up facts)

`Props/QuantityQuery` proves `Eval.query` (lexer → parser → evaluator) on rendered text against
`Spec.Quantity.denote` for expressions over literals with units; `Props/FactQuery` does the same
for number literals mixed with fact phrases. Here is the UNION: every `Spec.Quantity.QExpr` —
literals with and without units, `+ - * / ^`, parentheses, `to`, AND looked-up fact phrases
(`.fact phrase v u`) as leaves, nested to any depth — relative to a database `cfg.db`:
`2 * speed of light to km/s`, `(earth mass + 3 kg) / 2`. The proofs live in `Lemmas/UQ*.lean`
and reuse the QQ / FQ / C06 developments (`Lexes`, `Tot`, the `opLoop` stack invariant, the
specification-level shift-reduce machine, `EvalSim.Built`).

* **Lexer** `U_lex_render`, `U_lex_renderQuery`: the token list of a rendering (`toksU`).
* **Parser** `U_parse_render`: one tree with `RepU x e` — WITH_UNIT nodes, OP_CAST operators
  followed by a UNIT node, WORD / SENTENCE nodes whose text is the phrase, one OPERATION node per
  parenthesised group and per maximal run of operators of one priority. `U_value_phrase`: the
  exact condition under which words in operand position become ONE WORD / SENTENCE node.
* **Evaluator** `U_eval_represents`: value (`OutcomeV`: agrees with `denote false e`) and
  description log (a prefix of `descLog cfg e`, all of it on success), for every configuration.
* **Final** `U_query`, `C13_query_unified`, `C18_query_unified`, `C16_phrase_in_expression`,
  `C03_query_fact`, `C02_query_fact`, `C04_query_fact`.
* **Stage 2 — builtin calls over such expressions** (`floor(e)`, `ceil(e)`, `round(e)`,
  `round(e, n)`; `CallQ`, `renderCall`, `denoteCall` of `Lemmas/UQDefs.lean`):
  `C10_query_unified`, `C10_query_unified_spec`, `C10_query_unified_full` (the full statement
  `C10_query_unified_full_statement`, all four forms).

Definitions: `Lemmas/UQDefs.lean` (`PhraseU`, `WFS`, `FactsOK`, `WFU`, `toksU`, `LayoutOKU`,
`RepU`, `UnitsOKU`, `PowRiskU`, `OutcomeV`, `orderU`, `fullLog`, `descOf`), `Lemmas/UQLog.lean`
(`descLog`), `Lemmas/UQQuery.lean` (`QueryOutcomeU`). What the hypotheses exclude is pinned by
counterexample theorems at the end of this file.
-/

namespace Anything.Props.UnifiedQuery
open Anything Anything.Eval Anything.Spec Anything.Spec.Arith Anything.Spec.Decimal
open Anything.Spec.Quantity Anything.Spec.SI Anything.C06 Anything.QQ Anything.QQ.Ex Anything.FQ
open Anything.UQ Anything.UQ.Ex Anything.Props.C04

/-! ## Stage C — lexer -/

/-- **Lexer on renderings.** For every well-formed expression (`WFS`: the grammar's own reading of
the rendering; phrases can be typed, `PhraseU`) and every admissible layout (`LayoutOKU`), the lexer
produces, on the rendering of `e` followed by any text `rest` that is empty or starts with a blank,
a closing delimiter or an operator, exactly the in-order token list `toksU e ws` — for a phrase:
WORD, then WHITESPACE and WORD / NUMBER alternating — followed by the tokens of `rest`. -/
theorem U_lex_render (e : QExpr) (ws : Layout) (rest : List Char) (hwf : WFS e)
    (h : LayoutOKU e ws) (hs : ExprStop rest) :
    Lexer.lex ((Quantity.render e ws).1 ++ rest) = toksU e ws ++ Lexer.lex rest :=
  lex_renderU e ws rest hwf h hs

/-- **Lexer on rendered queries**: leading blank, the tokens of the expression, trailing blank. -/
theorem U_lex_renderQuery (e : QExpr) (ws : Layout) (hwf : WFS e) (h : QueryLayoutOKU e ws) :
    Lexer.lex (renderQuery e ws) = queryToksU e ws :=
  lex_queryU e ws hwf h

/-- Non-vacuity of the layout hypothesis for every expression: the default layout (one space at
every blank position) is admissible as soon as every written unit factor is one lexer word. -/
theorem U_default_layout_ok (e : QExpr) (hwf : WFS e) (hu : UnitsLexOKU e) : QueryLayoutOKU e [] :=
  queryLayoutOKU_nil e hwf hu

/-- **Which phrases can be typed.** `PhraseU p` (stated through the computable `splitPhrase`) holds
exactly for the texts of the phrases of `Props/FactQuery`: a first lexer word (`WordLit`: word
characters, not beginning with a digit, not the keyword `to`) followed by words or number words,
each after a non-empty blank run (`FQ.PhraseOK`). -/
theorem U_phrase_iff (p : List Char) :
    PhraseU p ↔ ∃ first more, PhraseOK first more ∧ phraseText first more = p :=
  phraseU_iff p

/-! ## Stage D — parser -/

/-- **`Grammar.value` on a phrase inside a larger expression — the exact syntactic condition.**
Whatever the words are (only token kinds matter): on a token buffer that holds, after a blank `W`,
a WORD token, then `(WHITESPACE, WORD-or-NUMBER)` pairs, and then — after an optional blank — a
token that is `+ - * / ^`, `to`, `)`, `,` or the end of the input (`FollowC`), `value` appends ONE
tree:
a WORD node for a single word, otherwise a SENTENCE node, whose text is the phrase as typed. The
phrase therefore ends exactly at an operator, at `to`, at `)`, at `,` or at the end; a
following NUMBER or WORD token would be swallowed (`U_phrase_swallows_number`), and the same words
directly after a NUMBER token are a unit (`U_word_after_number_is_unit`). -/
theorem U_value_phrase {s : PState} (F : Nat) (W : List Token) (first : List Char) (more : More)
    (K : List Token) (ht : s.toks = W ++ (phraseToks first more ++ K)) (hw : AllWS W)
    (hK : FollowC K) (h : C06.Good s.b) (hF : more.length + 1 ≤ F) :
    PTotal.Tot (Grammar.value (F + 1) W.length) s (fun r s' => ∃ cur Wt x, r = some cur ∧
      s'.toks = K ∧ s'.b.forest = s.b.forest ++ Wt ++ [x] ∧ WSTrees Wt ∧ Wt.length = W.length ∧
      x.kind = (if more = [] then Syntax.WORD else Syntax.SENTENCE) ∧ x.hasChildren = true ∧
      x.text = phraseText first more ∧
      Pos s'.b cur (s.b.forest.length + W.length) ∧ C06.Good s'.b ∧ NoNext s'.b ∧
      Ext s.b.forest.length s.b s'.b) :=
  value_phraseQ F W first more K ht hw hK h hF

/-- **Parser on renderings.** For every well-formed expression and every admissible layout,
parsing the rendered query succeeds and the forest consists of blank leaves and exactly one other
tree, which is the tree the documented grammar assigns to `e` (`RepU`). -/
theorem U_parse_render (e : QExpr) (ws : Layout) (hwf : WFS e) (hl : QueryLayoutOKU e ws) :
    ∃ forest x, Grammar.parseRoot (renderQuery e ws) = .ok forest ∧
      forest.filter (fun t => t.kind != .WHITESPACE) = [x] ∧ RepU x e := by
  obtain ⟨forest, hp, hF⟩ := parse_renderU e ws hwf hl
  obtain ⟨x, hx, hr⟩ := forestOKU_filter hF
  exact ⟨forest, x, hp, hx, hr⟩

/-- With the position of the blanks made explicit: blank leaves, the tree, blank leaves. -/
theorem U_parse_render_shape (e : QExpr) (ws : Layout) (hwf : WFS e) (hl : QueryLayoutOKU e ws) :
    ∃ forest lead x trail, Grammar.parseRoot (renderQuery e ws) = .ok forest ∧
      forest = lead ++ [x] ++ trail ∧ WSTrees lead ∧ WSTrees trail ∧ RepU x e := by
  obtain ⟨forest, hp, Wt, x, Wt', hf, h1, h2, hx⟩ := parse_renderU e ws hwf hl
  exact ⟨forest, Wt, x, Wt', hp, hf, h1, h2, hx⟩

/-! ## Stage A — evaluator -/

/-- **Evaluator on trees that represent an expression of the unified language.** If `t` is the
tree of `e`, the literals, units and constants of `e` are in scope (`UnitsOKU cfg`: as
`QQ.UnitsOK`; the database answers each phrase `p` of a leaf `.fact p v u` with a constant of value
`v` whose compound lists exactly the units `u`, all proportional units of the table) and the
operands of `+`, `-`, `to` are `Determinate`, then for every configuration (with or without
`describe`), offset, incoming log `d` and sufficient fuel:
* the result `r` agrees with the specification (`OutcomeV`: `siQ x = v.q` for a value `x` when
  `denote false e = .ok v`, an `err` — never a panic — when the specification has no value; only
  with `PowRiskU` possibly `badArgument`);
* the log grows by a prefix `L` of `descLog cfg e` — the successful lookups in evaluation order
  when describing, nothing otherwise — and by all of it when `r` is a value. -/
theorem U_eval_represents (cfg : Cfg) (t : Tree) (e : QExpr) (off fuel : Nat) (d : List Desc)
    (h : RepU t e) (hu : UnitsOKU cfg e) (hdet : Determinate e) (hf : 2 * size t ≤ fuel) :
    ∃ r L, eval cfg fuel ⟨off, t⟩ d = (r, d ++ L) ∧ OutcomeV e r ∧ L <+: descLog cfg e ∧
      ((∃ a, r = .ok a) → L = descLog cfg e) :=
  eval_repU_full cfg t e off fuel d h hu hdet hf

/-! ## Final — the whole pipeline -/

/-- **Queries of the unified language.** `Eval.query` on the rendering of a well-formed expression
under any admissible layout answers with exactly one result, the one the specification determines,
and the description log of `U_eval_represents` (`QueryOutcomeU`). -/
theorem U_query (cfg : Cfg) (e : QExpr) (ws : Layout) (hwf : WFU cfg e) (hl : QueryLayoutOKU e ws)
    (hu : UnitsOKU cfg e) (hdet : Determinate e) :
    QueryOutcomeU cfg e (Eval.query cfg (renderQuery e ws)) :=
  query_renderU cfg e ws hwf.1 hl hu hdet

/-- **C13 (whole queries of the unified language).** For every `e` with `WFU cfg e`, `UnitsOKU`,
`Determinate`, without `PowRiskU`, and every admissible layout, `Eval.query` on the text is a
single result: a value `r` with `siQ r = v.q` (SI value and dimensions; moreover `Agree r v`) when
`denote false e = .ok v` — and then the description log is exactly `descLog cfg e` —, or a single
error exactly when the specification has none. -/
theorem C13_query_unified (cfg : Cfg) (e : QExpr) (ws : Layout) (hwf : WFU cfg e)
    (hl : QueryLayoutOKU e ws) (hu : UnitsOKU cfg e) (hdet : Determinate e) (hp : ¬ PowRiskU e) :
    match denote false e with
    | .ok v => ∃ r, Eval.query cfg (renderQuery e ws) = .ok ([.ok r], descLog cfg e) ∧
        siQ r = v.q ∧ Agree r v
    | .error _ => ∃ k s t L, Eval.query cfg (renderQuery e ws) = .ok ([.error (.err k s t)], L) ∧
        L <+: descLog cfg e := by
  have hq := U_query cfg e ws hwf hl hu hdet
  cases hv : denote false e with
  | ok v =>
    obtain ⟨r, hr, ha⟩ := queryOutcomeU_ok hq hv hp
    exact ⟨r, hr, ha.si, ha⟩
  | error x => exact queryOutcomeU_err hq hv

/-- Whenever a query text answers a value at all, that value has the SI reading of `denote` (no
hypothesis on powers), and the log is all of `descLog cfg e`. -/
theorem C13_query_unified_value (cfg : Cfg) (e : QExpr) (ws : Layout) (r : Numeric) (L : List Desc)
    (hwf : WFU cfg e) (hl : QueryLayoutOKU e ws) (hu : UnitsOKU cfg e) (hdet : Determinate e)
    (hr : Eval.query cfg (renderQuery e ws) = .ok ([.ok r], L)) :
    ∃ v, denote false e = .ok v ∧ siQ r = v.q ∧ L = descLog cfg e := by
  obtain ⟨v, hv, ha, hL⟩ := queryOutcomeU_value (U_query cfg e ws hwf hl hu hdet) hr
  exact ⟨v, hv, ha.si, hL⟩

/-- **C18 (describe, whole queries of the unified language).** The describing and the plain run of
a query text return literally the same single result `r` (which is the one the specification
determines); the plain run reports nothing; the describing run reports `L`, a prefix of the
phrases of `e` in evaluation order (`orderU e`: right operand before left operand, except that
along a run `x₀ o₁ x₁ o₂ x₂ …` of operators of equal priority the order is `x₁, x₀, x₂, …`), each
with the description the database holds for it — and exactly that whole list when `r` is a value. -/
theorem C18_query_unified (cfg : Cfg) (e : QExpr) (ws : Layout) (hwf : WFU cfg e)
    (hl : QueryLayoutOKU e ws) (hu : UnitsOKU cfg e) (hdet : Determinate e) :
    ∃ r L, OutcomeV e r ∧
      Eval.query { cfg with describe := true } (renderQuery e ws) = .ok ([r], L) ∧
      Eval.query { cfg with describe := false } (renderQuery e ws) = .ok ([r], []) ∧
      L <+: (orderU e).map (fun p => ⟨p, descOf cfg.db p⟩) ∧
      ((∃ a, r = .ok a) → L = (orderU e).map (fun p => ⟨p, descOf cfg.db p⟩)) := by
  obtain ⟨r, L, hv, h1, h2, hp, hok⟩ := query_renderU_plain cfg e ws hwf.1 hl hu hdet
  rw [fullLog_eq cfg e hwf.2] at hp hok
  exact ⟨r, L, hv, h1, h2, hp, hok⟩

/-- **C16 (every fact leaf is looked up exactly once, with exactly its phrase).** When the
describing run of a query text of the unified language answers a value, the reported phrases are
exactly the phrases of the fact leaves of `e` as typed — `orderU e`, a permutation of the leaves
read left to right (`factLeaves`), each leaf once —, and every entry carries the description the
database holds under that phrase. -/
theorem C16_phrase_in_expression (cfg : Cfg) (e : QExpr) (ws : Layout) (r : Numeric)
    (L : List Desc) (hwf : WFU cfg e) (hl : QueryLayoutOKU e ws) (hu : UnitsOKU cfg e)
    (hdet : Determinate e)
    (hr : Eval.query { cfg with describe := true } (renderQuery e ws) = .ok ([.ok r], L)) :
    L.map (·.phrase) = orderU e ∧ (L.map (·.phrase)).Perm (factLeaves e) ∧
      ∀ x ∈ L, ∃ c, cfg.db x.phrase = .found c ∧ x.description = c.description := by
  obtain ⟨r', L', hv, h1, _, _, hok⟩ := C18_query_unified cfg e ws hwf hl hu hdet
  rw [hr] at h1
  simp only [Except.ok.injEq, Prod.mk.injEq, List.cons.injEq, and_true] at h1
  obtain ⟨rfl, rfl⟩ := h1
  have hL := hok ⟨r, rfl⟩
  have hph : L.map (·.phrase) = orderU e := by
    rw [hL, List.map_map]
    simp [Function.comp_def]
  refine ⟨hph, hph ▸ orderU_perm e, fun x hx => ?_⟩
  rw [hL] at hx
  obtain ⟨p, hp, rfl⟩ := List.mem_map.mp hx
  obtain ⟨c, hc⟩ := orderU_found cfg e hwf.2 p hp
  exact ⟨c, hc, by simp [descOf, hc]⟩

/-! ## C03 / C02 / C04 with a looked-up constant -/

/-- **C03 (query, a constant converted).** `<phrase> to <unit>` as text, the database holding
under the phrase a constant `c` (value `c.value`, compound `c.unit` of proportional table units,
with a dimension): when the dimensions agree the single result is
`c.value · scale(c.unit) / scale(target)` in a unit with the dimensions and exact scale of the
target; otherwise the single result is the error `illegalCast`. -/
theorem C03_query_fact (cfg : Cfg) (p : List Char) (c : Fact) (u₂ : List RTerm) (s₂ : UnitSem)
    (ws : Layout) (hp : PhraseU p) (hdb : cfg.db p = .found c) (hprop : Proportional c.unit)
    (hkn : AllKnown c.unit) (hu₂ : UnitOK u₂) (hs₂ : resolveAll u₂ = some s₂)
    (hd₁ : dims (semOf c.unit) ≠ DimVec.zero) (hd₂ : dims s₂ ≠ DimVec.zero)
    (hl : QueryLayoutOKU (.cast (.fact p c.value (resultUnit c.unit)) u₂) ws) :
    (dims (semOf c.unit) = dims s₂ →
      ∃ r, Eval.query cfg (renderQuery (.cast (.fact p c.value (resultUnit c.unit)) u₂) ws) =
          .ok ([.ok r], if cfg.describe then [⟨p, c.description⟩] else []) ∧
        r.value = c.value * scale (semOf c.unit) / scale s₂ ∧ SameUnit r.unit s₂) ∧
    (dims (semOf c.unit) ≠ dims s₂ →
      ∃ s t L, Eval.query cfg (renderQuery (.cast (.fact p c.value (resultUnit c.unit)) u₂) ws) =
        .ok ([.error (.err .illegalCast s t)], L)) := by
  have hsi : siOfResult c.value (resultUnit c.unit) = siQ ⟨c.value, c.unit⟩ :=
    siOfResult_resultUnit _ _
  have hdim : (siOfResult c.value (resultUnit c.unit)).dim = dims (semOf c.unit) := by rw [hsi]; rfl
  have hne : resultUnit c.unit ≠ [] := dims_ne_zero_ne_nil (v := c.value) (by rw [hdim]; exact hd₁)
  have hq := U_query cfg (.cast (.fact p c.value (resultUnit c.unit)) u₂) ws
    ⟨hp, c, hdb, rfl, rfl⟩ hl ⟨⟨c, hdb, rfl, rfl, hprop, hkn⟩, hu₂⟩
    (determinate_cast_fact p _ _ u₂ s₂ hs₂ (by rw [hdim]; exact hd₁) hd₂)
  have hden := denote_cast_fact p c.value (resultUnit c.unit) u₂ s₂ hne hs₂
    (unitOK_proportional u₂ s₂ hu₂ hs₂)
  rw [hdim] at hden
  constructor
  · intro hc
    rw [if_pos hc] at hden
    obtain ⟨r, hr, ha⟩ := queryOutcomeU_ok hq hden (by simp [PowRiskU])
    obtain ⟨hsame, hval⟩ := agree_value ha rfl
    refine ⟨r, ?_, ?_, hsame⟩
    · rw [hr]
      simp [descLog, fullLog, orderU, lookupLog, hdb]
    · rw [hval, hsi]
      rfl
  · intro hc
    exact query_cast_fact_illegal cfg p c u₂ s₂ ws hp hdb hprop hkn hu₂ hs₂ hd₁ hd₂ hc hl

/-- **C02 (query, a constant plus or minus a quantity).** `<phrase> + y u₂`, `<phrase> - y u₂` as
text, the constant and the unit both having a dimension: accepted exactly when the dimensions
agree; otherwise the single result is an error. -/
theorem C02_query_fact (cfg : Cfg) (op : BinOp) (hop : op = .add ∨ op = .sub) (p : List Char)
    (c : Fact) (l : Literal) (u₂ : List RTerm) (s₂ : UnitSem) (ws : Layout) (hp : PhraseU p)
    (hdb : cfg.db p = .found c) (hprop : Proportional c.unit) (hkn : AllKnown c.unit)
    (hlit : LitOKQ l) (hu₂ : UnitOK u₂) (hs₂ : resolveAll u₂ = some s₂)
    (hd₁ : dims (semOf c.unit) ≠ DimVec.zero) (hd₂ : dims s₂ ≠ DimVec.zero)
    (hl : QueryLayoutOKU (.bin op (.fact p c.value (resultUnit c.unit)) (.qty l u₂)) ws) :
    ((∃ r L, Eval.query cfg
        (renderQuery (.bin op (.fact p c.value (resultUnit c.unit)) (.qty l u₂)) ws) =
          .ok ([.ok r], L)) ↔ dims (semOf c.unit) = dims s₂) ∧
    (dims (semOf c.unit) = dims s₂ → ∃ r, Eval.query cfg
        (renderQuery (.bin op (.fact p c.value (resultUnit c.unit)) (.qty l u₂)) ws) =
          .ok ([.ok r], if cfg.describe then [⟨p, c.description⟩] else []) ∧
        siQ r = ⟨if op = .sub then c.value * scale (semOf c.unit) - value l * scale s₂
          else c.value * scale (semOf c.unit) + value l * scale s₂, dims s₂⟩) ∧
    (dims (semOf c.unit) ≠ dims s₂ → ∃ k s t L, Eval.query cfg
        (renderQuery (.bin op (.fact p c.value (resultUnit c.unit)) (.qty l u₂)) ws) =
          .ok ([.error (.err k s t)], L)) := by
  have hsi : siOfResult c.value (resultUnit c.unit) = siQ ⟨c.value, c.unit⟩ :=
    siOfResult_resultUnit _ _
  have hdim : (siOfResult c.value (resultUnit c.unit)).dim = dims (semOf c.unit) := by rw [hsi]; rfl
  have hne : resultUnit c.unit ≠ [] := dims_ne_zero_ne_nil (v := c.value) (by rw [hdim]; exact hd₁)
  have hpow : op ≠ .pow := by rcases hop with rfl | rfl <;> decide
  have hlt : op.prio < 100 := UQ.prio_lt_100 op
  have hq := U_query cfg (.bin op (.fact p c.value (resultUnit c.unit)) (.qty l u₂)) ws
    ⟨⟨hp, hlit.1.1, by simp only [qprio]; omega, by simp only [qprio]; omega⟩,
      ⟨c, hdb, rfl, rfl⟩, trivial⟩ hl
    ⟨⟨c, hdb, rfl, rfl, hprop, hkn⟩, ⟨hlit, hu₂⟩, fun h => absurd h hpow⟩
    (determinate_addsub_fact_qty op p _ _ l u₂ s₂ hu₂ hs₂ (by rw [hdim]; exact hd₁) hd₂)
  have hden := denote_addsub_fact_qty op hop p c.value (resultUnit c.unit) l u₂ s₂ hne
    (denote_qty_unitOK l u₂ s₂ hu₂ hs₂)
  rw [hdim] at hden
  have hrisk : ¬ PowRiskU (.bin op (.fact p c.value (resultUnit c.unit)) (.qty l u₂)) := by
    simp [PowRiskU, hpow]
  have hok : dims (semOf c.unit) = dims s₂ → ∃ r, Eval.query cfg
      (renderQuery (.bin op (.fact p c.value (resultUnit c.unit)) (.qty l u₂)) ws) =
        .ok ([.ok r], if cfg.describe then [⟨p, c.description⟩] else []) ∧
      siQ r = ⟨if op = .sub then c.value * scale (semOf c.unit) - value l * scale s₂
        else c.value * scale (semOf c.unit) + value l * scale s₂, dims s₂⟩ := by
    intro hc
    rw [if_pos hc] at hden
    obtain ⟨r, hr, ha⟩ := queryOutcomeU_ok hq hden hrisk
    refine ⟨r, ?_, ?_⟩
    · rw [hr]
      simp [descLog, fullLog, orderU, qprio, lookupLog, hdb]
    · rw [ha.si, hsi]
      simp only [hc]
      rfl
  have herr : dims (semOf c.unit) ≠ dims s₂ → ∃ k s t L, Eval.query cfg
      (renderQuery (.bin op (.fact p c.value (resultUnit c.unit)) (.qty l u₂)) ws) =
        .ok ([.error (.err k s t)], L) := by
    intro hc
    rw [if_neg hc] at hden
    obtain ⟨k, s, t, L, hr, _⟩ := queryOutcomeU_err hq hden
    exact ⟨k, s, t, L, hr⟩
  refine ⟨⟨fun ⟨r, L, hr⟩ => ?_, fun hc => ?_⟩, hok, herr⟩
  · by_contra hc
    obtain ⟨k, s, t, L', hk⟩ := herr hc
    rw [hk] at hr
    simp at hr
  · obtain ⟨r, hr, _⟩ := hok hc
    exact ⟨r, _, hr⟩

/-- **C04 (query, products, quotients and powers of a constant).** With the database holding under
the phrase a constant `c` (compound of proportional table units), as text under any admissible
layout: (1) `<phrase> * y u₂` has the SI value and dimensions of `Spec.SI.qmul` applied to the
readings `siQ ⟨c.value, c.unit⟩` and `⟨y · scale u₂, dims u₂⟩`; (2) `<phrase> / y u₂` those of `qdiv`
— an error exactly when `qdiv` is (a zero divisor); (3) `<phrase> ^ n` for a literal `n` those of
`qpow` — an error when `n` is not an integer or `qpow` is an error; `hfit` keeps the unit powers
within `i32` (the sum of the absolute values of the constant's powers times the exponent). In
every successful case the describing run reports exactly the one lookup. -/
theorem C04_query_fact (cfg : Cfg) (p : List Char) (c : Fact) (l : Literal) (u₂ : List RTerm)
    (s₂ : UnitSem) (hp : PhraseU p) (hdb : cfg.db p = .found c) (hprop : Proportional c.unit)
    (hkn : AllKnown c.unit) (hlit : LitOKQ l) (hu₂ : UnitOK u₂) (hs₂ : resolveAll u₂ = some s₂) :
    (∀ ws, QueryLayoutOKU (.bin .mul (.fact p c.value (resultUnit c.unit)) (.qty l u₂)) ws →
      ∃ r, Eval.query cfg
          (renderQuery (.bin .mul (.fact p c.value (resultUnit c.unit)) (.qty l u₂)) ws) =
          .ok ([.ok r], if cfg.describe then [⟨p, c.description⟩] else []) ∧
        siQ r = qmul (siQ ⟨c.value, c.unit⟩) ⟨value l * scale s₂, dims s₂⟩) ∧
    (∀ ws, QueryLayoutOKU (.bin .div (.fact p c.value (resultUnit c.unit)) (.qty l u₂)) ws →
      match qdiv (siQ ⟨c.value, c.unit⟩) ⟨value l * scale s₂, dims s₂⟩ with
      | .ok q => ∃ r, Eval.query cfg
          (renderQuery (.bin .div (.fact p c.value (resultUnit c.unit)) (.qty l u₂)) ws) =
          .ok ([.ok r], if cfg.describe then [⟨p, c.description⟩] else []) ∧ siQ r = q
      | .error _ => ∃ k s t L, Eval.query cfg
          (renderQuery (.bin .div (.fact p c.value (resultUnit c.unit)) (.qty l u₂)) ws) =
          .ok ([.error (.err k s t)], L)) ∧
    (∀ ws, QueryLayoutOKU (.bin .pow (.fact p c.value (resultUnit c.unit)) (.num l)) ws →
      (value l).num.natAbs ≤ 2147483647 →
      ((resultUnit c.unit).map (fun t => t.2.1.natAbs)).sum * (value l).num.natAbs ≤ 2147483647 →
      match (if Arith.isInt (value l) = true
          then qpow (siQ ⟨c.value, c.unit⟩) (value l).num else .error .power) with
      | .ok q => ∃ r, Eval.query cfg
          (renderQuery (.bin .pow (.fact p c.value (resultUnit c.unit)) (.num l)) ws) =
          .ok ([.ok r], if cfg.describe then [⟨p, c.description⟩] else []) ∧ siQ r = q
      | .error _ => ∃ k s t L, Eval.query cfg
          (renderQuery (.bin .pow (.fact p c.value (resultUnit c.unit)) (.num l)) ws) =
          .ok ([.error (.err k s t)], L)) := by
  have hsi : siOfResult c.value (resultUnit c.unit) = siQ ⟨c.value, c.unit⟩ :=
    siOfResult_resultUnit _ _
  have hq₂ := denote_qty_unitOK l u₂ s₂ hu₂ hs₂
  have hfact : UnitsOKU cfg (.fact p c.value (resultUnit c.unit)) :=
    ⟨c, hdb, rfl, rfl, hprop, hkn⟩
  have hwf : ∀ op : BinOp, WFU cfg (.bin op (.fact p c.value (resultUnit c.unit)) (.qty l u₂)) :=
    fun op => ⟨⟨hp, hlit.1.1, by have := UQ.prio_lt_100 op; simp only [qprio]; omega,
      by have := UQ.prio_lt_100 op; simp only [qprio]; omega⟩, ⟨c, hdb, rfl, rfl⟩, trivial⟩
  refine ⟨fun ws hl => ?_, fun ws hl => ?_, fun ws hl hn hfit => ?_⟩
  · have hq := U_query cfg _ ws (hwf .mul) hl ⟨hfact, ⟨hlit, hu₂⟩, fun h => nomatch h⟩
      ⟨trivial, trivial, fun h => by simp at h⟩
    obtain ⟨r, hr, ha⟩ := queryOutcomeU_ok hq (denote_mul_fact_qty p _ _ l u₂ s₂ hq₂)
      (powRiskU_bin_fact_qty (by decide) p _ _ l u₂)
    refine ⟨r, ?_, ?_⟩
    · rw [hr, descLog_fact_op cfg .mul p c _ hdb rfl]
    · rw [ha.si, hsi]; rfl
  · have hq := U_query cfg _ ws (hwf .div) hl ⟨hfact, ⟨hlit, hu₂⟩, fun h => nomatch h⟩
      ⟨trivial, trivial, fun h => by simp at h⟩
    have hden := denote_div_fact_qty p c.value (resultUnit c.unit) l u₂ s₂ hq₂
    rw [hsi] at hden
    simp only [qtyVal] at hden
    cases hd : qdiv (siQ ⟨c.value, c.unit⟩) ⟨value l * scale s₂, dims s₂⟩ with
    | ok q =>
      rw [hd] at hden
      obtain ⟨r, hr, ha⟩ := queryOutcomeU_ok hq hden (powRiskU_bin_fact_qty (by decide) p _ _ l u₂)
      exact ⟨r, by rw [hr, descLog_fact_op cfg .div p c _ hdb rfl], ha.si⟩
    | error x =>
      rw [hd] at hden
      obtain ⟨k, s, t, L, hr, _⟩ := queryOutcomeU_err hq hden
      exact ⟨k, s, t, L, hr⟩
  · have hq := U_query cfg (.bin .pow (.fact p c.value (resultUnit c.unit)) (.num l)) ws
      ⟨⟨hp, hlit.1.1, by simp [qprio, BinOp.prio], by simp [qprio, BinOp.prio]⟩,
        ⟨c, hdb, rfl, rfl⟩, trivial⟩ hl ⟨hfact, hlit, fun _ => ⟨l, rfl⟩⟩
      ⟨trivial, trivial, fun h => by simp at h⟩
    have hden := denote_pow_fact p c.value (resultUnit c.unit) l
    rw [hsi] at hden
    have hrisk := powRiskU_pow_fact p c.value (resultUnit c.unit) l hn hfit
    by_cases hi : Arith.isInt (value l) = true
    · rw [if_pos hi] at hden ⊢
      cases hpw : qpow (siQ ⟨c.value, c.unit⟩) (value l).num with
      | ok q =>
        rw [hpw] at hden
        obtain ⟨r, hr, ha⟩ := queryOutcomeU_ok hq hden hrisk
        exact ⟨r, by rw [hr, descLog_fact_op cfg .pow p c _ hdb rfl], ha.si⟩
      | error x =>
        rw [hpw] at hden
        obtain ⟨k, s, t, L, hr, _⟩ := queryOutcomeU_err hq hden
        exact ⟨k, s, t, L, hr⟩
    · rw [if_neg hi] at hden ⊢
      obtain ⟨k, s, t, L, hr, _⟩ := queryOutcomeU_err hq hden
      exact ⟨k, s, t, L, hr⟩

/-! ## Stage 2 — builtin calls over quantity expressions (C10) -/

/-- Admissible layouts of a call query, both forms (`prec = none`: `f( e )`; `prec = some n`:
`round( e , n )`): every blank position holds white space only, the argument's own layout is
admissible, the precision literal is well formed. -/
def CallLayoutFull (c : CallQ) (ws : Layout) : Prop :=
  let ws1 := rest1 (rest1 ws)
  let ws2 := afterQ c.arg ws1
  Blank (blank1 ws) ∧ Blank (blank1 (rest1 ws)) ∧ LayoutOKU c.arg ws1 ∧
    match c.prec with
    | none => Blank (blank1 ws2) ∧ Blank (blank1 (rest1 ws2))
    | some n => Blank (blank1 ws2) ∧ Blank (blank1 (rest1 ws2)) ∧ n.WF ∧
        Blank (blank1 (rest1 (rest1 ws2))) ∧ Blank (blank1 (rest1 (rest1 (rest1 ws2))))

/-- **The full statement of stage 2** (`floor(e)`, `ceil(e)`, `round(e)` AND `round(e, n)`): the
text of a builtin call over an expression of the unified language answers the specification's
`denoteCall` — the magnitude in the unit the argument is expressed in is rounded by the rounding
functions of `Spec.Arith`, the unit is kept —, and an error when the argument has no value.
PROVED: `C10_query_unified_full` (the one-argument forms are `C10_query_unified_partial`; for
`round(e, n)` the follow sets of `Lemmas/UQFollow.lean` allow a COMMA after the last operand of
`e`). -/
def C10_query_unified_full_statement : Prop :=
  ∀ (cfg : Cfg) (c : CallQ) (ws : Layout), WFU cfg c.arg → CallLayoutFull c ws →
    UnitsOKU cfg c.arg → Determinate c.arg → ¬ PowRiskU c.arg →
    (∀ n, c.prec = some n → LitOKQ n ∧ -2147483648 ≤ (value n).num ∧ (value n).num ≤ 2147483647) →
    (∀ w, denoteCall c = .ok w → ∃ r, Eval.query cfg (renderCallQuery c ws) =
        .ok ([.ok r], descLog cfg c.arg) ∧ Agree r w) ∧
    ((∃ x, denote false c.arg = .error x) → ∃ k s t L,
      Eval.query cfg (renderCallQuery c ws) = .ok ([.error (.err k s t)], L))

/-- **C10 (query, a builtin over a quantity expression).** For `f` one of `floor`, `ceil`, `round`
and every expression `e` of the unified language in scope, the text `f( e )` answers the result
`r₀` that `e` alone determines (`Agree r₀ v` for `denote false e = .ok v`) with its UNIT KEPT and its
MAGNITUDE ROUNDED by `Spec.Arith.floorI` / `ceilI` / `roundHalfAway` (`roundFn`); the description
log is that of `e`; when `e` has no value the single result is an error. -/
theorem C10_query_unified (cfg : Cfg) (f : Fn) (e : QExpr) (ws : Layout) (hwf : WFU cfg e)
    (hl : CallLayoutOK e ws) (hu : UnitsOKU cfg e) (hdet : Determinate e) (hp : ¬ PowRiskU e) :
    match denote false e with
    | .ok v => ∃ r₀, Agree r₀ v ∧ Eval.query cfg (renderCallQuery ⟨f, e, none⟩ ws) =
        .ok ([.ok { value := roundFn f r₀.value, unit := r₀.unit }], descLog cfg e)
    | .error _ => ∃ k s t L, Eval.query cfg (renderCallQuery ⟨f, e, none⟩ ws) =
        .ok ([.error (.err k s t)], L) := by
  obtain ⟨r, L, hres, ho, _, hok⟩ := query_callU cfg f e ws hwf.1 hl hu hdet
  unfold CallOutcome at ho
  cases hv : denote false e with
  | ok v =>
    rw [hv] at ho
    rcases ho with ⟨r₀, ha, hr⟩ | ⟨hrisk, _⟩
    · subst hr
      rw [hok ⟨_, rfl⟩] at hres
      exact ⟨r₀, ha, hres⟩
    · exact absurd hrisk hp
  | error x =>
    rw [hv] at ho
    obtain ⟨k, s, t, hr⟩ := ho
    subst hr
    exact ⟨k, s, t, L, hres⟩

/-- **C10 (query) against `denoteCall`.** When the specification determines the unit the argument
is expressed in, the text `f( e )` answers `denoteCall`: SI value `roundFn f (x / scale u) · scale u`
for the argument's SI value `x` and unit `u`, in a unit with the dimensions and the exact scale of
`u`. -/
theorem C10_query_unified_spec (cfg : Cfg) (f : Fn) (e : QExpr) (ws : Layout) (w : Val)
    (hwf : WFU cfg e) (hl : CallLayoutOK e ws) (hu : UnitsOKU cfg e) (hdet : Determinate e)
    (hp : ¬ PowRiskU e) (hw : denoteCall ⟨f, e, none⟩ = .ok w) :
    ∃ r, Eval.query cfg (renderCallQuery ⟨f, e, none⟩ ws) = .ok ([.ok r], descLog cfg e) ∧
      Agree r w := by
  have hq := C10_query_unified cfg f e ws hwf hl hu hdet hp
  unfold denoteCall at hw
  simp only at hw
  cases hv : denote false e with
  | error x => rw [hv] at hw; cases hw
  | ok v =>
    rw [hv] at hw hq
    simp only at hw hq
    cases hun : v.unit with
    | none => rw [hun] at hw; cases hw
    | some sem =>
      rw [hun] at hw
      have hm : roundMag f none (v.q.si / scale sem) = some (roundFn f (v.q.si / scale sem)) := by
        cases f <;> rfl
      simp only [hm, Except.ok.injEq] at hw
      obtain ⟨r₀, ha, hr⟩ := hq
      refine ⟨_, hr, ?_⟩
      subst hw
      exact agree_round ha hun (roundFn f)

/-- **What is proved of the full statement**: the one-argument forms. -/
theorem C10_query_unified_partial (cfg : Cfg) (c : CallQ) (ws : Layout) (hprec : c.prec = none)
    (hwf : WFU cfg c.arg) (hl : CallLayoutFull c ws) (hu : UnitsOKU cfg c.arg)
    (hdet : Determinate c.arg) (hp : ¬ PowRiskU c.arg) :
    (∀ w, denoteCall c = .ok w → ∃ r, Eval.query cfg (renderCallQuery c ws) =
        .ok ([.ok r], descLog cfg c.arg) ∧ Agree r w) ∧
    ((∃ x, denote false c.arg = .error x) → ∃ k s t L,
      Eval.query cfg (renderCallQuery c ws) = .ok ([.error (.err k s t)], L)) := by
  obtain ⟨f, e, pr⟩ := c
  simp only at hprec
  subst hprec
  have hl' : CallLayoutOK e ws := by
    obtain ⟨h0, h1, h2, h3, h4⟩ := hl
    exact ⟨h0, ⟨h1, h2, h3⟩, h4⟩
  refine ⟨fun w hw => C10_query_unified_spec cfg f e ws w hwf hl' hu hdet hp hw, fun ⟨x, hx⟩ => ?_⟩
  have := C10_query_unified cfg f e ws hwf hl' hu hdet hp
  rw [hx] at this
  exact this

/-- **C10 (query, all four forms): the full statement of stage 2 holds.** `floor(e)`, `ceil(e)`,
`round(e)` and `round(e, n)` as text, `e` any expression of the unified language in scope, `n` an
integer literal within `i32`: the single result agrees with `denoteCall` — unit kept, magnitude
rounded by `floorI` / `ceilI` / `roundHalfAway` / `roundTo` —, the describing run reports the
lookups of `e`; when `e` has no value the single result is an error. -/
theorem C10_query_unified_full : C10_query_unified_full_statement := by
  intro cfg c ws hwf hl hu hdet hp hprec
  obtain ⟨f, e, pr⟩ := c
  cases pr with
  | none => exact C10_query_unified_partial cfg ⟨f, e, none⟩ ws rfl hwf hl hu hdet hp
  | some n =>
    obtain ⟨hlit, hrange⟩ := hprec n rfl
    have hl' : CallLayoutOK2 e n ws := by
      obtain ⟨h0, h1, h2, h3, h4, h5, h6, h7⟩ := hl
      exact ⟨h0, h1, h2, h3, h4, h5, h6, h7⟩
    exact query_call2U cfg f e n ws hwf.1 hl' hu hdet hp hlit hrange

/-! ## Non-vacuity and tests (labelled as such) -/


/-- Non-vacuity of `U_lex_render`, `U_parse_render`, `U_eval_represents`, `U_query`,
`C13_query_unified`, `C18_query_unified`: `(speed of light * 2 s) to km` over the database `db1`
meets all hypotheses at once (default layout); its denotation is 599 584 916 m. -/
theorem ex_in_scope :
    String.ofList (renderQuery ex []) = " ( speed of light * 2 s ) to km " ∧ WFU cfg1 ex ∧
    QueryLayoutOKU ex [] ∧ UnitsOKU cfg1 ex ∧ Determinate ex ∧ ¬ PowRiskU ex ∧
    (denote false ex).toOption.map (fun v => (v.q.si, v.q.dim, v.plain)) =
      some (599584916, [0, 0, 1, 0, 0, 0, 0, 0], false) ∧
    orderU ex = [solPhrase] := by
  have hwfs : WFS ex := by
    refine ⟨phraseU_sol, (by decide : Literal.WF _), ?_, ?_⟩ <;> simp [sol, qprio, BinOp.prio]
  refine ⟨by decide +kernel, ⟨hwfs, ⟨solFact, by simp [cfg1, db1], rfl, rfl⟩, trivial⟩, ?_, ?_, ?_, ?_,
    by decide +kernel, rfl⟩
  · exact U_default_layout_ok _ hwfs
      ⟨⟨trivial, unitLexOK_of_check (by decide +kernel)⟩, unitLexOK_of_check (by decide +kernel)⟩
  · exact ⟨⟨sol_unitsOK, ⟨litOKQ_digit 2 (by omega), unitOK_s⟩, fun h => nomatch h⟩, unitOK_km⟩
  · refine ⟨⟨trivial, trivial, fun h => by simp at h⟩, fun v sem hv hsem => ?_⟩
    rw [unitOK_resolve_rs unitOK_km] at hsem
    cases hsem
    have hd : (denote false (.paren (.bin .mul sol (.qty (natLit [2]) s)))).toOption.map
        (fun v => (v.q.dim, v.plain)) = some ([0, 0, 1, 0, 0, 0, 0, 0], false) := by
      decide +kernel
    rw [hv] at hd
    simp only [Except.toOption, Option.map_some, Option.some.injEq, Prod.mk.injEq] at hd
    refine Or.inr ⟨?_, by decide +kernel⟩
    rw [hd.1]
    decide
  · simp [ex, sol, PowRiskU]

/-- Test (labelled as a test): the model's whole pipeline on this text answers 599 584.916 km and
reports the one lookup. -/
example :
    (Eval.query cfg1 (renderQuery ex [])).toOption.map
      (fun r => r.1.map (fun x => x.toOption.map (fun n => (n.value, n.unit)))) =
      some [some (149896229 / 250, [(.base .Meter, ⟨1, 3⟩)])] ∧
    (Eval.query cfg1 (renderQuery ex [])).toOption.map
      (fun r => r.2.map (fun x => String.ofList x.phrase)) = some ["speed of light"] := by
  decide +kernel

/-- Non-vacuity of stage 2: `round( ( speed of light * 2 s ) to km )` under the default layout is
in scope of `C10_query_unified` / `C10_query_unified_spec` (the other hypotheses are those of
`ex_in_scope`); `denoteCall` gives 599 585 km = 599 585 000 m. -/
theorem ex_call_in_scope :
    String.ofList (renderCallQuery ⟨.round, ex, none⟩ []) = " round( ( speed of light * 2 s ) to km ) " ∧
    CallLayoutOK ex [] ∧
    (denoteCall ⟨.round, ex, none⟩).toOption.map (fun v => (v.q.si, v.q.dim)) =
      some (599585000, [0, 0, 1, 0, 0, 0, 0, 0]) := by
  obtain ⟨_, hwf, _, _⟩ := ex_in_scope
  refine ⟨by decide +kernel, ?_, by decide +kernel⟩
  have hu : UnitsLexOKU ex :=
    ⟨⟨trivial, unitLexOK_of_check (by decide +kernel)⟩, unitLexOK_of_check (by decide +kernel)⟩
  have h := layoutOKU_nil (.paren ex) hwf.1 hu
  refine ⟨blank_default, h, ?_⟩
  show Blank (blank1 (Quantity.render (.paren ex) []).2)
  rw [afterQ_nil]; exact blank_default

/-- Test (labelled as a test): the pipeline answers 599 585 km for the rounded call and
599 584 km for `floor`. -/
example :
    (Eval.query cfg1 (renderCallQuery ⟨.round, ex, none⟩ [])).toOption.map
      (fun r => r.1.map (fun x => x.toOption.map (fun n => (n.value, n.unit)))) =
      some [some ((599585 : Rat), ([(.base .Meter, ⟨1, 3⟩)] : Compound))] ∧
    (Eval.query cfg1 (renderCallQuery ⟨.floor, ex, none⟩ [])).toOption.map
      (fun r => r.1.map (fun x => x.toOption.map (fun n => (n.value, n.unit)))) =
      some [some ((599584 : Rat), ([(.base .Meter, ⟨1, 3⟩)] : Compound))] :=
  ⟨by decide +kernel, by decide +kernel⟩

/-- Non-vacuity of the two-argument form: `round( ( speed of light * 2 s ) to km , 2 )` under the
default layout meets the hypotheses of `C10_query_unified_full`; `denoteCall` gives 599 584.92 km. -/
theorem ex_call2_in_scope :
    String.ofList (renderCallQuery ⟨.round, ex, some (natLit [2])⟩ []) =
      " round( ( speed of light * 2 s ) to km , 2 ) " ∧
    CallLayoutFull ⟨.round, ex, some (natLit [2])⟩ [] ∧ LitOKQ (natLit [2]) ∧
    (-2147483648 ≤ (value (natLit [2])).num ∧ (value (natLit [2])).num ≤ 2147483647) ∧
    (denoteCall ⟨.round, ex, some (natLit [2])⟩).toOption.map (fun v => (v.q.si, v.q.dim)) =
      some (599584920, [0, 0, 1, 0, 0, 0, 0, 0]) := by
  obtain ⟨_, hwf, _, _⟩ := ex_in_scope
  refine ⟨by decide +kernel, ?_, litOKQ_digit 2 (by omega), by decide +kernel, by decide +kernel⟩
  have hu : UnitsLexOKU ex :=
    ⟨⟨trivial, unitLexOK_of_check (by decide +kernel)⟩, unitLexOK_of_check (by decide +kernel)⟩
  have h := layoutOKU_nil ex hwf.1 hu
  simp only [CallLayoutFull, afterQ, afterQ_nil, rest1_nil]
  exact ⟨blank_default, blank_default, h, blank_default, blank_default, by decide, blank_default,
    blank_default⟩

/-- Test (labelled as a test): the pipeline answers 599 584.92 km. -/
example :
    (Eval.query cfg1 (renderCallQuery ⟨.round, ex, some (natLit [2])⟩ [])).toOption.map
      (fun r => r.1.map (fun x => x.toOption.map (fun n => (n.value, n.unit)))) =
      some [some ((14989623 / 25 : Rat), ([(.base .Meter, ⟨1, 3⟩)] : Compound))] := by
  decide +kernel

/-- Non-vacuity with a power of a looked-up constant: `1 kg * speed of light ^ 2 to J` is in scope
WITHOUT `PowRiskU` — `powBoundU` of a constant is the sum of the absolute values of its powers
(here 2), times the exponent 2 far within `i32` —, so `C13_query_unified` gives the exact value:
E = m c² = 89 875 517 873 681 764 J. -/
theorem emc2_in_scope :
    String.ofList (renderQuery emc2 []) = " 1 kg * speed of light ^ 2 to J " ∧ WFU cfg1 emc2 ∧
    QueryLayoutOKU emc2 [] ∧ UnitsOKU cfg1 emc2 ∧ ¬ PowRiskU emc2 ∧
    (denote false emc2).toOption.map (fun v => (v.q.si, v.q.dim)) =
      some (89875517873681764, [1, 0, 2, -2, 0, 0, 0, 0]) := by
  have hwfs : WFS emc2 := by
    refine ⟨(by decide : Literal.WF _), ⟨phraseU_sol, (by decide : Literal.WF _), ?_, ?_⟩, ?_, ?_⟩ <;>
      simp [sol, qprio, BinOp.prio]
  refine ⟨by decide +kernel, ⟨hwfs, trivial, ⟨solFact, by simp [cfg1, db1], rfl, rfl⟩, trivial⟩,
    ?_, ?_, ?_, by decide +kernel⟩
  · exact U_default_layout_ok _ hwfs
      ⟨⟨unitLexOK_of_check (by decide +kernel), trivial, trivial⟩,
        unitLexOK_of_check (by decide +kernel)⟩
  · exact ⟨⟨⟨litOKQ_digit 1 (by omega), unitOK_kg⟩,
      ⟨sol_unitsOK, litOKQ_digit 2 (by omega), fun _ => ⟨_, rfl⟩⟩, fun h => nomatch h⟩, unitOK_joule⟩
  · have hsafe : PowSafeU (.fact solPhrase 299792458 (resultUnit mps)) (.num (natLit [2])) :=
      ⟨2, natLit [2], by decide +kernel, rfl, by decide +kernel, by decide +kernel⟩
    simp [emc2, sol, PowRiskU, hsafe]

/-- Test (labelled as a test): the pipeline's answer for E = m c². -/
example :
    (Eval.query cfg1 (renderQuery emc2 [])).toOption.map
      (fun r => r.1.map (fun x => x.toOption.map (fun n => n.value))) =
      some [some 89875517873681764] := by
  decide +kernel

/-- Non-vacuity of `C03_query_fact` / `C02_query_fact`: the constant of `db1` is found, its
compound consists of proportional table units, it has the dimension of a speed; `km/s`-like
targets agree, `km` does not. -/
example : PhraseU solPhrase ∧ cfg1.db solPhrase = .found solFact ∧ Proportional solFact.unit ∧
    AllKnown solFact.unit ∧ dims (semOf solFact.unit) = [0, 0, 1, -1, 0, 0, 0, 0] ∧
    dims (semOf solFact.unit) ≠ dims (km.map rs) :=
  ⟨phraseU_sol, by simp [cfg1, db1], mps_prop, mps_known, by decide +kernel, by decide +kernel⟩

/-! ## What the hypotheses exclude — boundary cases, pinned -/

/-- **A number directly after a phrase belongs to the phrase.** `pi -2` — no blank between the
binary `-` and the unsigned literal, which `LayoutOKU` excludes (`gluesU`) — is ONE phrase
`pi -2` for the tool (`-2` lexes as a number, and `wordLoop` takes numbers after the first word),
not a difference. With the blank, `pi - 2`, it is an OPERATION. -/
theorem U_phrase_swallows_number :
    (Grammar.parseRoot ['p', 'i', ' ', '-', '2']).toOption.map
      (fun f => f.map (fun t => (t.kind, String.ofList t.text))) = some [(.SENTENCE, "pi -2")] ∧
    (Grammar.parseRoot ['p', 'i', ' ', '-', ' ', '2']).toOption.map
      (fun f => f.map Tree.kind) = some [.OPERATION] := by decide +kernel

/-- **The same word is a unit after a number and a phrase in operand position.** `2 pi` is one
literal with unit (WITH_UNIT), `2 * pi` is a product whose right operand is the WORD node `pi`;
after `to` the words are a unit; a word glued to `(` is a function name. -/
theorem U_word_after_number_is_unit :
    (Grammar.parseRoot ['2', ' ', 'p', 'i']).toOption.map (fun f => f.map Tree.kind) =
      some [.WITH_UNIT] ∧
    (Grammar.parseRoot ['2', ' ', '*', ' ', 'p', 'i']).toOption.map
      (fun f => f.map (fun t => (opKids t.kids).map Tree.kind)) = some [[.NUMBER, .OP_MUL, .WORD]] ∧
    (Grammar.parseRoot ['1', ' ', 't', 'o', ' ', 'p', 'i']).toOption.map
      (fun f => f.map (fun t => (opKids t.kids).map Tree.kind)) = some [[.NUMBER, .OP_CAST, .UNIT]] ∧
    (Grammar.parseRoot ['p', 'i', '(', '2', ')']).toOption.map (fun f => f.map Tree.kind) =
      some [.FN_CALL] := by decide +kernel

/-- **`to` needs a blank after a phrase.** `pito m` (what `LayoutOKU` excludes: no blank between
the phrase `pi` and the keyword) is the phrase `pito m`; `pi to m` is a cast. After a NUMBER the
blank is not needed: `3to m` is a cast. -/
theorem U_to_needs_blank :
    (Grammar.parseRoot ['p', 'i', 't', 'o', ' ', 'm']).toOption.map
      (fun f => f.map (fun t => (t.kind, String.ofList t.text))) = some [(.SENTENCE, "pito m")] ∧
    (Grammar.parseRoot ['p', 'i', ' ', 't', 'o', ' ', 'm']).toOption.map
      (fun f => f.map (fun t => (opKids t.kids).map Tree.kind)) = some [[.WORD, .OP_CAST, .UNIT]] ∧
    (Grammar.parseRoot ['3', 't', 'o', ' ', 'm']).toOption.map
      (fun f => f.map (fun t => (opKids t.kids).map Tree.kind)) = some [[.NUMBER, .OP_CAST, .UNIT]] := by
  decide +kernel

/-- The full statement one would like: `C13_query_unified` without `Determinate`. It is FALSE for
the model (and the program), see `C13_query_unified_full_statement_fails`. -/
def C13_query_unified_full_statement : Prop :=
  ∀ (cfg : Cfg) (e : QExpr) (ws : Layout), WFU cfg e → QueryLayoutOKU e ws → UnitsOKU cfg e →
    ¬ PowRiskU e →
    match denote false e with
    | .ok v => ∃ r L, Eval.query cfg (renderQuery e ws) = .ok ([.ok r], L) ∧ siQ r = v.q
    | .error _ => ∃ k s t L, Eval.query cfg (renderQuery e ws) = .ok ([.error (.err k s t)], L)

/-- **Finding (a plain number next to a constant).** `speed of light + 3`: the specification gives
a looked-up constant no determined unit (`Val.unit = none` in `denote`), so it cannot say what the
plain `3` means and answers `other`; the tool adopts the unit of the constant and answers
299 792 461 m/s. `Determinate` excludes it (`AddOK` asks for a determined unit next to a plain
number), as it excludes `2 m * 3 s + 1` in `Props/QuantityQuery`. -/
theorem U_finding_fact_plus_plain :
    (denote false solPlus3).toOption.isNone = true ∧
    (Eval.query cfg1 (renderQuery solPlus3 [])).toOption.map
      (fun r => r.1.map (fun x => x.toOption.map (fun n => (n.value, n.unit)))) =
        some [some (299792461, mps)] := by decide +kernel

theorem C13_query_unified_full_statement_fails : ¬ C13_query_unified_full_statement := by
  intro hfull
  have hwfs : WFS solPlus3 := by
    refine ⟨phraseU_sol, (by decide : Literal.WF _), ?_, ?_⟩ <;> simp [sol, qprio, BinOp.prio]
  have h := hfull cfg1 solPlus3 []
    ⟨hwfs, ⟨solFact, by simp [cfg1, db1], rfl, rfl⟩, trivial⟩
    (U_default_layout_ok _ hwfs ⟨trivial, trivial⟩)
    ⟨sol_unitsOK, litOKQ_digit 3 (by omega), fun h => nomatch h⟩
    (by simp [solPlus3, sol, PowRiskU])
  obtain ⟨h1, h2⟩ := U_finding_fact_plus_plain
  cases hd : denote false solPlus3 with
  | ok v => rw [hd] at h1; simp [Except.toOption] at h1
  | error x =>
    rw [hd] at h
    obtain ⟨k, s', t, L, hk⟩ := h
    rw [hk] at h2
    simp [Except.toOption] at h2

/-!
## Remarks

* **Scope.** Everything `Props/QuantityQuery` covers (literals with proportional units, `+ - * /`,
  `^` with a literal exponent, parentheses, `to`) plus fact phrases as leaves, plus ONE builtin call
  around the whole expression (stage 2). Not covered: calls nested inside an expression
  (`floor(x) + 1`; for plain numbers see `Props/C06`, `Props/C10Query`), percent literals,
  `°C`/`°F`.
* **Stage 2.** `denoteCall` rounds the magnitude in the unit the argument is EXPRESSED in
  (`Val.unit`), so it has no value when the specification leaves that unit undetermined (a product,
  a quotient, a looked-up constant); the tool then rounds in the unit it displays — this is what
  `C10_query_unified` says (`r₀` with its magnitude rounded), without reference to `denoteCall`.
  `floor` / `ceil` with two arguments and a non-integer precision have no denotation (the tool
  answers `argumentMismatch` / `badArgument`); they are outside the statement.
* **`.fact p v u` against the database.** `WFU cfg` asks that `cfg.db p = .found c` with
  `c.value = v` and `resultUnit c.unit = u`, i.e. `u` lists the entries of the constant's compound
  in the compound's order as `(key, power, prefix)`; then `Spec.SI.siOfResult v u = siQ ⟨v, c.unit⟩`
  (`siOfResult_resultUnit`). `UnitsOKU cfg` adds that the compound consists of proportional units
  of the unit table (`Proportional`, `AllKnown`: what `Agree` records about every result).
* **`Agree` for a constant.** `denote` gives a fact `Val.unit = none` (undetermined) and
  `plain = u.isEmpty`: a constant WITHOUT unit is a plain number for specification and tool alike
  (it adopts units under `+`, `-`, `to`); a constant with a unit has its SI value and dimensions
  fixed, while its display unit is not specified — so next to a plain number under `+`/`-` it is
  outside `Determinate` (`U_finding_fact_plus_plain`).
* **`PowRiskU`** uses `powBoundU`, which bounds the powers of a constant by the sum of the
  absolute values of its written powers: `speed of light ^ 2` is `PowSafeU` (`emc2_in_scope`).
* **The log.** `orderU` is the evaluation order of `FQ.order`; a cast `a to u` evaluates the unit
  (no lookups) and then `a`. On an error the log is a prefix of the full list (the lookups that
  succeeded before the failure); `C18_query_unified` says exactly this.
* **Layout.** `LayoutOKU` = `QQ.LayoutOKQ` with two additions: after a binary `+`/`-` without blank
  the right operand must not be an unsigned literal NOR a phrase beginning with `e`/`E`
  (`gluesU`, cf. `FQ_layout_needed`); `to` after a phrase needs a blank (`U_to_needs_blank`).
-/

end Anything.Props.UnifiedQuery
