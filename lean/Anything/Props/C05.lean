import Anything.Model.Cli
import Anything.Spec.Words
import Anything.Lemmas.UnitWord
import Anything.Lemmas.Scale
/-!
# C05 — every unit word denotes the standard definition of a unit and prefix
-/

namespace Anything.Props.C05
open Anything Anything.Spec Anything.Spec.SI Anything.Spec.UnitRef

/-! ## The prefix literals -/

/-- Both lexer tables, in the order the runtime `refcheck` command walks them. -/
abbrev allRows : List (List Char × WordAction) := Generated.unitsOnly ++ Generated.combined

/-- `"YOCTO"` ↦ `"yocto"`. -/
def lower (s : String) : List Char := s.toList.map Char.toLower

/-- **C05 (prefix table).** The prefix literals of the generated lexer tables carry
exactly the SI prefixes' powers of ten:
1. every prefix literal is the symbol or the name of an SI prefix of the reference
   (brochure table 7) and carries that prefix's power of ten;
2. conversely every SI prefix symbol and every SI prefix name is a prefix literal with
   that power;
3. the second lexer (`Units`) has no prefix literal at all;
4. the `Prefix::*` constants are the twenty SI prefixes (by lower-cased name, with
   their power) plus `NONE = 0`;
5. the reference itself is unambiguous (symbols and names pairwise distinct), so that
   `refPrefix` cannot be right for the wrong reason. -/
theorem C05_prefix_table :
    (∀ lit p alone, (lit, WordAction.pfx p alone) ∈ Generated.combined → refPrefix lit = some p) ∧
    (∀ r ∈ prefixes,
      (∃ alone, (r.1.toList, WordAction.pfx r.2.2 alone) ∈ Generated.combined) ∧
      (∃ alone, (r.2.1.toList, WordAction.pfx r.2.2 alone) ∈ Generated.combined)) ∧
    (∀ lit p alone, (lit, WordAction.pfx p alone) ∉ Generated.unitsOnly) ∧
    ((∀ c ∈ Generated.prefixConsts, (c.1 = "NONE" ∧ c.2 = 0) ∨
        ∃ r ∈ prefixes, r.2.1.toList = lower c.1 ∧ r.2.2 = c.2) ∧
     (∀ r ∈ prefixes, ∃ c ∈ Generated.prefixConsts, r.2.1.toList = lower c.1 ∧ r.2.2 = c.2)) ∧
    (prefixes.map (·.1) ++ prefixes.map (·.2.1)).Nodup := by
  refine ⟨?_, ?_, ?_, ⟨?_, ?_⟩, ?_⟩
  · have h : Generated.combined.all (fun r => match r.2 with
        | .pfx p _ => refPrefix r.1 == some p
        | _ => true) = true := by decide +kernel
    intro lit p alone hm
    have := List.all_eq_true.mp h _ hm
    simpa using this
  · have h : prefixes.all (fun r =>
        Generated.combined.any (fun row => row.1 == r.1.toList && match row.2 with
          | .pfx p _ => p == r.2.2
          | _ => false) &&
        Generated.combined.any (fun row => row.1 == r.2.1.toList && match row.2 with
          | .pfx p _ => p == r.2.2
          | _ => false)) = true := by decide +kernel
    intro r hr
    have := List.all_eq_true.mp h _ hr
    simp only [Bool.and_eq_true, List.any_eq_true, beq_iff_eq] at this
    obtain ⟨⟨⟨l1, a1⟩, hm1, he1, hp1⟩, ⟨⟨l2, a2⟩, hm2, he2, hp2⟩⟩ := this
    simp only at he1 he2 hp1 hp2
    subst he1 he2
    constructor
    · cases a1 with
      | pfx p alone => simp only [beq_iff_eq] at hp1; subst hp1; exact ⟨alone, hm1⟩
      | unit _ _ => simp at hp1
      | sep => simp at hp1
    · cases a2 with
      | pfx p alone => simp only [beq_iff_eq] at hp2; subst hp2; exact ⟨alone, hm2⟩
      | unit _ _ => simp at hp2
      | sep => simp at hp2
  · have h : Generated.unitsOnly.all (fun r => match r.2 with
        | .pfx _ _ => false
        | _ => true) = true := by decide +kernel
    intro lit p alone hm
    have := List.all_eq_true.mp h _ hm
    simp at this
  · have h : Generated.prefixConsts.all (fun c => (c.1 == "NONE" && c.2 == 0) ||
        prefixes.any (fun r => r.2.1.toList == lower c.1 && r.2.2 == c.2)) = true := by
      decide +kernel
    intro c hc
    have := List.all_eq_true.mp h _ hc
    simp only [Bool.or_eq_true, Bool.and_eq_true, beq_iff_eq, List.any_eq_true] at this
    rcases this with h1 | ⟨r, hr, h2⟩
    · exact Or.inl h1
    · exact Or.inr ⟨r, hr, h2⟩
  · have h : prefixes.all (fun r =>
        Generated.prefixConsts.any (fun c => r.2.1.toList == lower c.1 && r.2.2 == c.2)) = true := by
      decide +kernel
    intro r hr
    have := List.all_eq_true.mp h _ hr
    simp only [List.any_eq_true, Bool.and_eq_true, beq_iff_eq] at this
    exact this
  · decide +kernel

/-- Non-vacuity: the tables do contain prefix literals, e.g. `k` and `kilo` for 10³. -/
example : (['k'], WordAction.pfx 3 none) ∈ Generated.combined ∧
    (['k', 'i', 'l', 'o'], WordAction.pfx 3 none) ∈ Generated.combined := by decide +kernel

/-! ## The unit-name literals against the reference table

`admissible` is the `"OK"` verdict of `Spec.UnitRef.checkName`, which the runtime
`refcheck` command prints for every unit-name literal (`C05_refcheck_iff`);
`Admissible` spells it out (`C05_admissible_iff`). -/

def admissible (lit : List Char) (k : UnitKey) (bias : Int) : Bool :=
  match findAffine lit with
  | some (m, a) =>
    (match scaleOf k with
     | .affine m' a' => m == m' && a == a' && dimsOf k == [0, 0, 0, 0, 0, 1, 0, 0]
     | .linear _ => false)
  | none =>
    match findRow lit with
    | none => false
    | some r =>
      (match scaleOf k with
       | .linear f => r.scales.contains (Arith.zpow 10 bias * f)
       | .affine _ _ => false) && dimsOf k == r.dims

def Admissible (lit : List Char) (k : UnitKey) (bias : Int) : Prop :=
  (∃ m a, findAffine lit = some (m, a) ∧ scaleOf k = .affine m a ∧ dimsOf k = [0, 0, 0, 0, 0, 1, 0, 0]) ∨
  (findAffine lit = none ∧ ∃ r, findRow lit = some r ∧ dimsOf k = r.dims ∧
    ∃ f, scaleOf k = .linear f ∧ (10 : Rat) ^ bias * f ∈ r.scales)

theorem C05_admissible_iff (lit : List Char) (k : UnitKey) (bias : Int) :
    admissible lit k bias = true ↔ Admissible lit k bias := by
  unfold admissible Admissible
  cases hA : findAffine lit with
  | some ma =>
    obtain ⟨m, a⟩ := ma
    cases hS : scaleOf k with
    | linear f => simp
    | affine m' a' =>
      simp only [Bool.and_eq_true, beq_iff_eq, Option.some.injEq, Prod.mk.injEq, Scale.affine.injEq]
      constructor
      · rintro ⟨⟨rfl, rfl⟩, h⟩; exact Or.inl ⟨m, a, ⟨rfl, rfl⟩, ⟨rfl, rfl⟩, h⟩
      · rintro (⟨m1, a1, ⟨rfl, rfl⟩, ⟨rfl, rfl⟩, h⟩ | ⟨h, _⟩)
        · exact ⟨⟨rfl, rfl⟩, h⟩
        · simp at h
  | none =>
    cases hR : findRow lit with
    | none => simp
    | some r =>
      cases hS : scaleOf k with
      | linear f =>
        simp [arith_zpow_eq, and_comm]
      | affine m' a' => simp

theorem C05_refcheck_iff (lit : List Char) (k : UnitKey) (bias : Int) :
    checkName lit k bias = "OK" ↔ admissible lit k bias = true := by
  unfold checkName admissible
  cases hA : findAffine lit with
  | some ma =>
    obtain ⟨m, a⟩ := ma
    cases hS : scaleOf k with
    | linear f => simp
    | affine m' a' =>
      simp only
      split <;> simp_all
  | none =>
    cases hR : findRow lit with
    | none => simp
    | some r =>
      cases hS : scaleOf k with
      | linear f =>
        simp only [isAffine, linFactor, hS, Bool.false_eq_true, ↓reduceIte]
        split
        · simp_all
        · split <;> simp_all
      | affine m' a' => simp [isAffine, hS]


/-- The names excluded from `C05_table`, as character lists. -/
def deviating : List (List Char) := knownDeviations.map String.toList

/-- **C05 (unit table).** Every unit-name literal of either lexer table, except the
known deviations, maps to a unit that has the dimensions of the reference row for
that name and, with the literal's bias, one of the row's admissible exact scales
(for the two offset temperature scales: the reference slope and zero point). -/
theorem C05_table (lit : List Char) (k : UnitKey) (bias : Int)
    (hm : (lit, WordAction.unit k bias) ∈ allRows) (hk : lit ∉ deviating) :
    Admissible lit k bias := by
  have h1 : Generated.unitsOnly.all (fun r => match r.2 with
      | .unit k b => deviating.contains r.1 || admissible r.1 k b
      | _ => true) = true := by decide +kernel
  have h2 : Generated.combined.all (fun r => match r.2 with
      | .unit k b => deviating.contains r.1 || admissible r.1 k b
      | _ => true) = true := by decide +kernel
  have := (List.mem_append.mp hm).elim (List.all_eq_true.mp h1 _) (List.all_eq_true.mp h2 _)
  simp only [Bool.or_eq_true, List.contains_iff_mem] at this
  rcases this with h1 | h1
  · exact absurd h1 hk
  · exact (C05_admissible_iff lit k bias).mp h1

/-- The same fact in the words of the runtime `refcheck` command. -/
theorem C05_table_refcheck (lit : List Char) (k : UnitKey) (bias : Int)
    (hm : (lit, WordAction.unit k bias) ∈ allRows) (hk : lit ∉ deviating) :
    checkName lit k bias = "OK" :=
  (C05_refcheck_iff lit k bias).mpr ((C05_admissible_iff lit k bias).mpr (C05_table lit k bias hm hk))

/-- Non-vacuity: `mile` is a literal of the table, not excluded, and its reference row
has the single scale 1609.344 m. -/
example : (['m', 'i', 'l', 'e'], WordAction.unit (.derived 3553165315) 0) ∈ allRows ∧
    ['m', 'i', 'l', 'e'] ∉ deviating ∧
    (findRow ['m', 'i', 'l', 'e']).map (·.scales) = some [1609344 / 1000] := by decide +kernel

/-- **C05 (unit table, converse).** Every name of the reference table (and both
offset scales) is a unit-name literal of the `Units` lexer, so the reference is not
satisfied vacuously. -/
theorem C05_table_complete :
    (∀ r ∈ table, ∀ n ∈ r.names, ∃ k b, (n.toList, WordAction.unit k b) ∈ Generated.unitsOnly) ∧
    (∀ r ∈ affineTable, ∀ n ∈ r.1, ∃ k b, (n.toList, WordAction.unit k b) ∈ Generated.unitsOnly) := by
  have key : ∀ names : List String,
      names.all (fun n => Generated.unitsOnly.any (fun row => row.1 == n.toList && match row.2 with
        | .unit _ _ => true
        | _ => false)) = true →
      ∀ n ∈ names, ∃ k b, (n.toList, WordAction.unit k b) ∈ Generated.unitsOnly := by
    intro names h n hn
    have := List.all_eq_true.mp h _ hn
    simp only [List.any_eq_true, Bool.and_eq_true, beq_iff_eq] at this
    obtain ⟨⟨l, a⟩, hm, he, ha⟩ := this
    simp only at he ha
    subst he
    cases a with
    | unit k b => exact ⟨k, b, hm⟩
    | pfx _ _ => simp at ha
    | sep => simp at ha
  constructor
  · have h : (table.flatMap (·.names)).all (fun n => Generated.unitsOnly.any (fun row =>
        row.1 == n.toList && match row.2 with
        | .unit _ _ => true
        | _ => false)) = true := by decide +kernel
    intro r hr n hn
    exact key _ h n (List.mem_flatMap.mpr ⟨r, hr, hn⟩)
  · have h : (affineTable.flatMap (·.1)).all (fun n => Generated.unitsOnly.any (fun row =>
        row.1 == n.toList && match row.2 with
        | .unit _ _ => true
        | _ => false)) = true := by decide +kernel
    intro r hr n hn
    exact key _ h n (List.mem_flatMap.mpr ⟨r, hr, hn⟩)

/-! ### The known deviations, pinned

Each of the four units recorded in `known_findings.jsonl` is pinned to its current
value: a different wrong value, a repaired value, or a further deviating name breaks
one of these proofs. -/

/-- `name` is a unit-name literal, and every row for it in either lexer table maps it
to a proportional unit of dimension `dims` whose scale, with the row's bias, is
exactly `scale`. -/
def pinnedAs (name : String) (dims : DimVec) (scale : Rat) : Bool :=
  Generated.unitsOnly.any (fun r => r.1 == name.toList) &&
  allRows.all fun r => r.1 != name.toList ||
    match r.2 with
    | .unit k b =>
      (match scaleOf k with
       | .linear f => Arith.zpow 10 b * f == scale
       | .affine _ _ => false) && dimsOf k == dims
    | _ => false

/-- The admissible scales of the reference row for `name`. -/
def refScales (name : String) : List Rat := ((findRow name.toList).map (·.scales)).getD []

/-- `pint`, `pints`: half a US gallon (1.89 L), none of the three pints. -/
theorem C05_pinned_pint :
    pinnedAs "pint" dL3 (galUS / 2) = true ∧ pinnedAs "pints" dL3 (galUS / 2) = true ∧
    galUS / 2 = 473176473 / 250000000000 ∧ galUS / 2 ∉ refScales "pint" ∧
    refScales "pints" = refScales "pint" := by decide +kernel

/-- `Da`, `dalton`, `daltons`: 1.660539066605 kg, the factor 10⁻²⁷ is missing. -/
theorem C05_pinned_dalton :
    pinnedAs "Da" dM (1660539066605 / 10 ^ 12) = true ∧
    pinnedAs "dalton" dM (1660539066605 / 10 ^ 12) = true ∧
    pinnedAs "daltons" dM (1660539066605 / 10 ^ 12) = true ∧
    (1660539066605 / 10 ^ 12 : Rat) ∉ refScales "Da" ∧
    refScales "dalton" = refScales "Da" ∧ refScales "daltons" = refScales "Da" := by decide +kernel

/-- `ftm`, `fathom`, `fathoms`: a thousandth of a nautical mile (1.852 m), not 2 yd. -/
theorem C05_pinned_fathom :
    pinnedAs "ftm" dL (nmi / 1000) = true ∧ pinnedAs "fathom" dL (nmi / 1000) = true ∧
    pinnedAs "fathoms" dL (nmi / 1000) = true ∧
    nmi / 1000 ∉ refScales "ftm" ∧ refScales "ftm" = [2 * yd] ∧
    refScales "fathom" = refScales "ftm" ∧ refScales "fathoms" = refScales "ftm" := by decide +kernel

/-- `slug`, `slugs`: 14.59390294 kg, the exact `lb·g₀/ft` rounded at 10⁻⁸. -/
theorem C05_pinned_slug :
    pinnedAs "slug" dM (1459390294 / 10 ^ 8) = true ∧ pinnedAs "slugs" dM (1459390294 / 10 ^ 8) = true ∧
    (1459390294 / 10 ^ 8 : Rat) ∉ refScales "slug" ∧ refScales "slug" = [lb * g0 / ft] ∧
    refScales "slugs" = refScales "slug" := by decide +kernel

/-- The exclusion list is exact: every excluded name is a literal and really deviates
(so `C05_table` excludes nothing it could have covered). -/
theorem C05_pinned_all_deviate :
    (∀ lit ∈ deviating, ∃ k b, (lit, WordAction.unit k b) ∈ Generated.unitsOnly) ∧
    (∀ lit k b, (lit, WordAction.unit k b) ∈ allRows → lit ∈ deviating → ¬ Admissible lit k b) := by
  constructor
  · have h : deviating.all (fun lit => Generated.unitsOnly.any (fun row => row.1 == lit && match row.2 with
        | .unit _ _ => true
        | _ => false)) = true := by decide +kernel
    intro lit hl
    have := List.all_eq_true.mp h _ hl
    simp only [List.any_eq_true, Bool.and_eq_true, beq_iff_eq] at this
    obtain ⟨⟨l, a⟩, hm, he, ha⟩ := this
    simp only at he ha
    subst he
    cases a with
    | unit k b => exact ⟨k, b, hm⟩
    | pfx _ _ => simp at ha
    | sep => simp at ha
  · have h1 : Generated.unitsOnly.all (fun r => match r.2 with
        | .unit k b => !deviating.contains r.1 || !admissible r.1 k b
        | _ => true) = true := by decide +kernel
    have h2 : Generated.combined.all (fun r => match r.2 with
        | .unit k b => !deviating.contains r.1 || !admissible r.1 k b
        | _ => true) = true := by decide +kernel
    intro lit k b hm hd hA
    have := (List.mem_append.mp hm).elim (List.all_eq_true.mp h1 _) (List.all_eq_true.mp h2 _)
    simp only [Bool.or_eq_true, Bool.not_eq_true', List.contains_eq_mem, decide_eq_false_iff_not] at this
    rcases this with h1 | h1
    · exact h1 hd
    · rw [(C05_admissible_iff lit k b).mpr hA] at h1; exact absurd h1 (by simp)


end Anything.Props.C05
