import Anything.Model.Cli
import Anything.Spec.Words
import Anything.Lemmas.UnitWord
import Anything.Lemmas.Words
import Anything.Lemmas.UnitExpr
/-!
# C05 — every unit word denotes the standard definition of a unit and prefix

* `C05_prefix_table`: the prefix literals are exactly the SI prefixes with their powers
  of ten (reference: `Spec.UnitRef.prefixes`).
* `C05_table` (+ `C05_table_refcheck`, `C05_table_complete`): every unit-name literal of
  the two generated lexer tables has the dimensions and an admissible exact scale of the
  reference row for that name — the comparison the runtime `refcheck` command makes —
  except the known deviations, which `C05_pinned_*` pin to their current values.
* `C05_reading` (+ `_word`, `_spec`, `_standard`, `_wordUnits`): for EVERY character
  list, what `UnitWord.parse` accepts is dashes, an optional prefix literal and a
  unit-name literal of the tables (longest matches), read with the tables' meaning; a
  whole word is a concatenation of such pieces and one of `Spec.Words.readings`.
* `C05_names`: every typeable unit name is accepted on its own as exactly that unit
  (`C05_display_names`: so are the names the tool prints, but for two pinned ones).
* `C05_expr*`: the loop of `eval::unit` — `*`, blanks and juxtaposition multiply, `/`
  inverts everything after it, `^n` applies to the unit before it — computes the
  dimensions and exact scale of the specification's reading of the children.

All table facts are `decide +kernel` over `Anything.Generated`, so they are re-checked
whenever the tables are regenerated. The theorems are about the model's ideal
longest-literal lexer; the departures of the pinned `logos` lexer from longest-match
(`dal…`, `zeV`; finding `class:logos-backtracking`) are outside the model.
-/

namespace Anything.Props.C05
open Anything Anything.Spec Anything.Spec.SI Anything.Spec.UnitRef

/-! ## The prefix literals -/

/-- Both lexer tables, in the order the runtime `refcheck` command walks them. -/
abbrev allRows : List (List Char × WordAction) := Generated.unitsOnly ++ Generated.combined

/-- `"YOCTO"` ↦ `"yocto"`. -/
def lower (s : String) : List Char := s.toList.map Char.toLower

/-- **C05 (prefix table).** The prefix literals of the generated lexer tables carry
exactly the SI prefixes' powers of ten:
1. every prefix literal is the symbol or the name of an SI prefix of the reference
   (brochure table 7) and carries that prefix's power of ten;
2. conversely every SI prefix symbol and every SI prefix name is a prefix literal with
   that power;
3. the second lexer (`Units`) has no prefix literal at all;
4. the `Prefix::*` constants are the twenty SI prefixes (by lower-cased name, with
   their power) plus `NONE = 0`;
5. the reference itself is unambiguous (symbols and names pairwise distinct), so that
   `refPrefix` cannot be right for the wrong reason. -/
theorem C05_prefix_table :
    (∀ lit p alone, (lit, WordAction.pfx p alone) ∈ Generated.combined → refPrefix lit = some p) ∧
    (∀ r ∈ prefixes,
      (∃ alone, (r.1.toList, WordAction.pfx r.2.2 alone) ∈ Generated.combined) ∧
      (∃ alone, (r.2.1.toList, WordAction.pfx r.2.2 alone) ∈ Generated.combined)) ∧
    (∀ lit p alone, (lit, WordAction.pfx p alone) ∉ Generated.unitsOnly) ∧
    ((∀ c ∈ Generated.prefixConsts, (c.1 = "NONE" ∧ c.2 = 0) ∨
        ∃ r ∈ prefixes, r.2.1.toList = lower c.1 ∧ r.2.2 = c.2) ∧
     (∀ r ∈ prefixes, ∃ c ∈ Generated.prefixConsts, r.2.1.toList = lower c.1 ∧ r.2.2 = c.2)) ∧
    (prefixes.map (·.1) ++ prefixes.map (·.2.1)).Nodup := by
  refine ⟨?_, ?_, ?_, ⟨?_, ?_⟩, ?_⟩
  · have h : Generated.combined.all (fun r => match r.2 with
        | .pfx p _ => refPrefix r.1 == some p
        | _ => true) = true := by decide +kernel
    intro lit p alone hm
    have := List.all_eq_true.mp h _ hm
    simpa using this
  · have h : prefixes.all (fun r =>
        Generated.combined.any (fun row => row.1 == r.1.toList && match row.2 with
          | .pfx p _ => p == r.2.2
          | _ => false) &&
        Generated.combined.any (fun row => row.1 == r.2.1.toList && match row.2 with
          | .pfx p _ => p == r.2.2
          | _ => false)) = true := by decide +kernel
    intro r hr
    have := List.all_eq_true.mp h _ hr
    simp only [Bool.and_eq_true, List.any_eq_true, beq_iff_eq] at this
    obtain ⟨⟨⟨l1, a1⟩, hm1, he1, hp1⟩, ⟨⟨l2, a2⟩, hm2, he2, hp2⟩⟩ := this
    simp only at he1 he2 hp1 hp2
    subst he1 he2
    constructor
    · cases a1 with
      | pfx p alone => simp only [beq_iff_eq] at hp1; subst hp1; exact ⟨alone, hm1⟩
      | unit _ _ => simp at hp1
      | sep => simp at hp1
    · cases a2 with
      | pfx p alone => simp only [beq_iff_eq] at hp2; subst hp2; exact ⟨alone, hm2⟩
      | unit _ _ => simp at hp2
      | sep => simp at hp2
  · have h : Generated.unitsOnly.all (fun r => match r.2 with
        | .pfx _ _ => false
        | _ => true) = true := by decide +kernel
    intro lit p alone hm
    have := List.all_eq_true.mp h _ hm
    simp at this
  · have h : Generated.prefixConsts.all (fun c => (c.1 == "NONE" && c.2 == 0) ||
        prefixes.any (fun r => r.2.1.toList == lower c.1 && r.2.2 == c.2)) = true := by
      decide +kernel
    intro c hc
    have := List.all_eq_true.mp h _ hc
    simp only [Bool.or_eq_true, Bool.and_eq_true, beq_iff_eq, List.any_eq_true] at this
    rcases this with h1 | ⟨r, hr, h2⟩
    · exact Or.inl h1
    · exact Or.inr ⟨r, hr, h2⟩
  · have h : prefixes.all (fun r =>
        Generated.prefixConsts.any (fun c => r.2.1.toList == lower c.1 && r.2.2 == c.2)) = true := by
      decide +kernel
    intro r hr
    have := List.all_eq_true.mp h _ hr
    simp only [List.any_eq_true, Bool.and_eq_true, beq_iff_eq] at this
    exact this
  · decide +kernel

/-- Non-vacuity: the tables do contain prefix literals, e.g. `k` and `kilo` for 10³. -/
example : (['k'], WordAction.pfx 3 none) ∈ Generated.combined ∧
    (['k', 'i', 'l', 'o'], WordAction.pfx 3 none) ∈ Generated.combined := by decide +kernel

/-! ## The unit-name literals against the reference table

`admissible` is the `"OK"` verdict of `Spec.UnitRef.checkName`, which the runtime
`refcheck` command prints for every unit-name literal (`C05_refcheck_iff`);
`Admissible` spells it out (`C05_admissible_iff`). -/

/-- The literal `lit`, mapped by a lexer table to the unit `k` with bias `bias`, agrees
with the reference (executable form; the same case analysis as `checkName`). -/
def admissible (lit : List Char) (k : UnitKey) (bias : Int) : Bool :=
  match findAffine lit with
  | some (m, a) =>
    (match scaleOf k with
     | .affine m' a' => m == m' && a == a' && dimsOf k == [0, 0, 0, 0, 0, 1, 0, 0]
     | .linear _ => false)
  | none =>
    match findRow lit with
    | none => false
    | some r =>
      (match scaleOf k with
       | .linear f => r.scales.contains (Arith.zpow 10 bias * f)
       | .affine _ _ => false) && dimsOf k == r.dims

/-- Either `lit` names an offset temperature scale and `k` has exactly the reference
slope and zero point (and dimension kelvin), or `lit` has a row in the reference table,
`k` is a proportional unit with the row's dimensions, and `10^bias · factor` is one of
the row's admissible exact scales. -/
def Admissible (lit : List Char) (k : UnitKey) (bias : Int) : Prop :=
  (∃ m a, findAffine lit = some (m, a) ∧ scaleOf k = .affine m a ∧ dimsOf k = [0, 0, 0, 0, 0, 1, 0, 0]) ∨
  (findAffine lit = none ∧ ∃ r, findRow lit = some r ∧ dimsOf k = r.dims ∧
    ∃ f, scaleOf k = .linear f ∧ (10 : Rat) ^ bias * f ∈ r.scales)

/-- `admissible` decides `Admissible`. -/
theorem C05_admissible_iff (lit : List Char) (k : UnitKey) (bias : Int) :
    admissible lit k bias = true ↔ Admissible lit k bias := by
  unfold admissible Admissible
  cases hA : findAffine lit with
  | some ma =>
    obtain ⟨m, a⟩ := ma
    cases hS : scaleOf k with
    | linear f => simp
    | affine m' a' =>
      simp only [Bool.and_eq_true, beq_iff_eq, Option.some.injEq, Prod.mk.injEq, Scale.affine.injEq]
      constructor
      · rintro ⟨⟨rfl, rfl⟩, h⟩; exact Or.inl ⟨m, a, ⟨rfl, rfl⟩, ⟨rfl, rfl⟩, h⟩
      · rintro (⟨m1, a1, ⟨rfl, rfl⟩, ⟨rfl, rfl⟩, h⟩ | ⟨h, _⟩)
        · exact ⟨⟨rfl, rfl⟩, h⟩
        · simp at h
  | none =>
    cases hR : findRow lit with
    | none => simp
    | some r =>
      cases hS : scaleOf k with
      | linear f =>
        simp [arith_zpow_eq, and_comm]
      | affine m' a' => simp

/-- `admissible` is the `"OK"` verdict of the runtime `refcheck` command. -/
theorem C05_refcheck_iff (lit : List Char) (k : UnitKey) (bias : Int) :
    checkName lit k bias = "OK" ↔ admissible lit k bias = true := by
  unfold checkName admissible
  cases hA : findAffine lit with
  | some ma =>
    obtain ⟨m, a⟩ := ma
    cases hS : scaleOf k with
    | linear f => simp
    | affine m' a' =>
      simp only
      split <;> simp_all
  | none =>
    cases hR : findRow lit with
    | none => simp
    | some r =>
      cases hS : scaleOf k with
      | linear f =>
        simp only [isAffine, linFactor, hS, Bool.false_eq_true, ↓reduceIte]
        split
        · simp_all
        · split <;> simp_all
      | affine m' a' => simp [isAffine, hS]

/-- The names excluded from `C05_table`, as character lists. -/
def deviating : List (List Char) := knownDeviations.map String.toList

/-- **C05 (unit table).** Every unit-name literal of either lexer table, except the
known deviations, maps to a unit that has the dimensions of the reference row for
that name and, with the literal's bias, one of the row's admissible exact scales
(for the two offset temperature scales: the reference slope and zero point). -/
theorem C05_table (lit : List Char) (k : UnitKey) (bias : Int)
    (hm : (lit, WordAction.unit k bias) ∈ allRows) (hk : lit ∉ deviating) :
    Admissible lit k bias := by
  have a1 : (Generated.unitsOnly.take 120).all (fun r => match r.2 with
      | .unit k b => deviating.contains r.1 || admissible r.1 k b
      | _ => true) = true := by decide +kernel
  have a2 : (Generated.unitsOnly.drop 120).all (fun r => match r.2 with
      | .unit k b => deviating.contains r.1 || admissible r.1 k b
      | _ => true) = true := by decide +kernel
  have b1 : (Generated.combined.take 140).all (fun r => match r.2 with
      | .unit k b => deviating.contains r.1 || admissible r.1 k b
      | _ => true) = true := by decide +kernel
  have b2 : (Generated.combined.drop 140).all (fun r => match r.2 with
      | .unit k b => deviating.contains r.1 || admissible r.1 k b
      | _ => true) = true := by decide +kernel
  have h1 := UnitWord.all_of_take_drop _ 120 _ a1 a2
  have h2 := UnitWord.all_of_take_drop _ 140 _ b1 b2
  have := (List.mem_append.mp hm).elim (List.all_eq_true.mp h1 _) (List.all_eq_true.mp h2 _)
  simp only [Bool.or_eq_true, List.contains_iff_mem] at this
  rcases this with h1 | h1
  · exact absurd h1 hk
  · exact (C05_admissible_iff lit k bias).mp h1

/-- The same fact in the words of the runtime `refcheck` command. -/
theorem C05_table_refcheck (lit : List Char) (k : UnitKey) (bias : Int)
    (hm : (lit, WordAction.unit k bias) ∈ allRows) (hk : lit ∉ deviating) :
    checkName lit k bias = "OK" :=
  (C05_refcheck_iff lit k bias).mpr ((C05_admissible_iff lit k bias).mpr (C05_table lit k bias hm hk))

/-- Non-vacuity: `mile` is a literal of the table, not excluded, and its reference row
has the single scale 1609.344 m. -/
example : (['m', 'i', 'l', 'e'], WordAction.unit (.derived 3553165315) 0) ∈ allRows ∧
    ['m', 'i', 'l', 'e'] ∉ deviating ∧
    (findRow ['m', 'i', 'l', 'e']).map (·.scales) = some [1609344 / 1000] := by decide +kernel

/-- **C05 (unit table, converse).** Every name of the reference table (and both
offset scales) is a unit-name literal of the `Units` lexer, so the reference is not
satisfied vacuously. -/
theorem C05_table_complete :
    (∀ r ∈ table, ∀ n ∈ r.names, ∃ k b, (n.toList, WordAction.unit k b) ∈ Generated.unitsOnly) ∧
    (∀ r ∈ affineTable, ∀ n ∈ r.1, ∃ k b, (n.toList, WordAction.unit k b) ∈ Generated.unitsOnly) := by
  have key : ∀ names : List String,
      names.all (fun n => Generated.unitsOnly.any (fun row => row.1 == n.toList && match row.2 with
        | .unit _ _ => true
        | _ => false)) = true →
      ∀ n ∈ names, ∃ k b, (n.toList, WordAction.unit k b) ∈ Generated.unitsOnly := by
    intro names h n hn
    have := List.all_eq_true.mp h _ hn
    simp only [List.any_eq_true, Bool.and_eq_true, beq_iff_eq] at this
    obtain ⟨⟨l, a⟩, hm, he, ha⟩ := this
    simp only at he ha
    subst he
    cases a with
    | unit k b => exact ⟨k, b, hm⟩
    | pfx _ _ => simp at ha
    | sep => simp at ha
  constructor
  · have h : (table.flatMap (·.names)).all (fun n => Generated.unitsOnly.any (fun row =>
        row.1 == n.toList && match row.2 with
        | .unit _ _ => true
        | _ => false)) = true := by decide +kernel
    intro r hr n hn
    exact key _ h n (List.mem_flatMap.mpr ⟨r, hr, hn⟩)
  · have h : (affineTable.flatMap (·.1)).all (fun n => Generated.unitsOnly.any (fun row =>
        row.1 == n.toList && match row.2 with
        | .unit _ _ => true
        | _ => false)) = true := by decide +kernel
    intro r hr n hn
    exact key _ h n (List.mem_flatMap.mpr ⟨r, hr, hn⟩)

/-! ### The known deviations, pinned

Each of the four units recorded in `known_findings.jsonl` is pinned to its current
value: a different wrong value, a repaired value, or a further deviating name breaks
one of these proofs. -/

/-- `name` is a unit-name literal, and every row for it in either lexer table maps it
to a proportional unit of dimension `dims` whose scale, with the row's bias, is
exactly `scale`. -/
def pinnedAs (name : String) (dims : DimVec) (scale : Rat) : Bool :=
  Generated.unitsOnly.any (fun r => r.1 == name.toList) &&
  allRows.all fun r => r.1 != name.toList ||
    match r.2 with
    | .unit k b =>
      (match scaleOf k with
       | .linear f => Arith.zpow 10 b * f == scale
       | .affine _ _ => false) && dimsOf k == dims
    | _ => false

/-- The admissible scales of the reference row for `name`. -/
def refScales (name : String) : List Rat := ((findRow name.toList).map (·.scales)).getD []

/-- `pint`, `pints`: half a US gallon (1.89 L), none of the three pints. -/
theorem C05_pinned_pint :
    pinnedAs "pint" dL3 (galUS / 2) = true ∧ pinnedAs "pints" dL3 (galUS / 2) = true ∧
    galUS / 2 = 473176473 / 250000000000 ∧ galUS / 2 ∉ refScales "pint" ∧
    refScales "pints" = refScales "pint" := by decide +kernel

/-- `Da`, `dalton`, `daltons`: 1.660539066605 kg, the factor 10⁻²⁷ is missing. -/
theorem C05_pinned_dalton :
    pinnedAs "Da" dM (1660539066605 / 10 ^ 12) = true ∧
    pinnedAs "dalton" dM (1660539066605 / 10 ^ 12) = true ∧
    pinnedAs "daltons" dM (1660539066605 / 10 ^ 12) = true ∧
    (1660539066605 / 10 ^ 12 : Rat) ∉ refScales "Da" ∧
    refScales "dalton" = refScales "Da" ∧ refScales "daltons" = refScales "Da" := by decide +kernel

/-- `ftm`, `fathom`, `fathoms`: a thousandth of a nautical mile (1.852 m), not 2 yd. -/
theorem C05_pinned_fathom :
    pinnedAs "ftm" dL (nmi / 1000) = true ∧ pinnedAs "fathom" dL (nmi / 1000) = true ∧
    pinnedAs "fathoms" dL (nmi / 1000) = true ∧
    nmi / 1000 ∉ refScales "ftm" ∧ refScales "ftm" = [2 * yd] ∧
    refScales "fathom" = refScales "ftm" ∧ refScales "fathoms" = refScales "ftm" := by decide +kernel

/-- `slug`, `slugs`: 14.59390294 kg, the exact `lb·g₀/ft` rounded at 10⁻⁸. -/
theorem C05_pinned_slug :
    pinnedAs "slug" dM (1459390294 / 10 ^ 8) = true ∧ pinnedAs "slugs" dM (1459390294 / 10 ^ 8) = true ∧
    (1459390294 / 10 ^ 8 : Rat) ∉ refScales "slug" ∧ refScales "slug" = [lb * g0 / ft] ∧
    refScales "slugs" = refScales "slug" := by decide +kernel

/-- The exclusion list is exact: every excluded name is a literal and really deviates
(so `C05_table` excludes nothing it could have covered). -/
theorem C05_pinned_all_deviate :
    (∀ lit ∈ deviating, ∃ k b, (lit, WordAction.unit k b) ∈ Generated.unitsOnly) ∧
    (∀ lit k b, (lit, WordAction.unit k b) ∈ allRows → lit ∈ deviating → ¬ Admissible lit k b) := by
  constructor
  · have h : deviating.all (fun lit => Generated.unitsOnly.any (fun row => row.1 == lit && match row.2 with
        | .unit _ _ => true
        | _ => false)) = true := by decide +kernel
    intro lit hl
    have := List.all_eq_true.mp h _ hl
    simp only [List.any_eq_true, Bool.and_eq_true, beq_iff_eq] at this
    obtain ⟨⟨l, a⟩, hm, he, ha⟩ := this
    simp only at he ha
    subst he
    cases a with
    | unit k b => exact ⟨k, b, hm⟩
    | pfx _ _ => simp at ha
    | sep => simp at ha
  · have a1 : (Generated.unitsOnly.take 120).all (fun r => match r.2 with
        | .unit k b => !deviating.contains r.1 || !admissible r.1 k b
        | _ => true) = true := by decide +kernel
    have a2 : (Generated.unitsOnly.drop 120).all (fun r => match r.2 with
        | .unit k b => !deviating.contains r.1 || !admissible r.1 k b
        | _ => true) = true := by decide +kernel
    have b1 : (Generated.combined.take 140).all (fun r => match r.2 with
        | .unit k b => !deviating.contains r.1 || !admissible r.1 k b
        | _ => true) = true := by decide +kernel
    have b2 : (Generated.combined.drop 140).all (fun r => match r.2 with
        | .unit k b => !deviating.contains r.1 || !admissible r.1 k b
        | _ => true) = true := by decide +kernel
    have h1 := UnitWord.all_of_take_drop _ 120 _ a1 a2
    have h2 := UnitWord.all_of_take_drop _ 140 _ b1 b2
    intro lit k b hm hd hA
    have := (List.mem_append.mp hm).elim (List.all_eq_true.mp h1 _) (List.all_eq_true.mp h2 _)
    simp only [Bool.or_eq_true, Bool.not_eq_true', List.contains_eq_mem, decide_eq_false_iff_not] at this
    rcases this with h1 | h1
    · exact h1 hd
    · rw [(C05_admissible_iff lit k b).mpr hA] at h1; exact absurd h1 (by simp)

/-! ## Reading a word -/

/-- **C05 (shape of the lexer tables).** `-` is the only separator literal; every
other literal is non-empty and does not start with `-`; a prefix literal with a
stand-alone meaning is also a unit-name literal of the `Units` lexer with that very
meaning (so the special case adds no reading of its own). -/
theorem C05_table_shape :
    (∀ lit, (lit, WordAction.sep) ∈ allRows → lit = ['-']) ∧
    (∀ lit act, (lit, act) ∈ allRows → act ≠ WordAction.sep → ∃ c cs, lit = c :: cs ∧ c ≠ '-') ∧
    (∀ plit q u b, (plit, WordAction.pfx q (some (u, b))) ∈ Generated.combined →
      (plit, WordAction.unit u b) ∈ Generated.unitsOnly) := by
  refine ⟨?_, ?_, ?_⟩
  · have h : allRows.all (fun r => r.2 != WordAction.sep || r.1 == ['-']) = true := by decide +kernel
    intro lit hm
    have := List.all_eq_true.mp h _ hm
    simpa using this
  · have h : allRows.all (fun r => r.2 == WordAction.sep || match r.1 with
        | c :: _ => c != '-'
        | [] => false) = true := by decide +kernel
    intro lit act hm ha
    have := List.all_eq_true.mp h _ hm
    simp only [Bool.or_eq_true, beq_iff_eq, ha, false_or] at this
    cases lit with
    | nil => simp at this
    | cons c cs => exact ⟨c, cs, rfl, by simpa using this⟩
  · have h : Generated.combined.all (fun r => match r.2 with
        | .pfx _ (some (u, b)) => Generated.unitsOnly.contains (r.1, WordAction.unit u b)
        | _ => true) = true := by decide +kernel
    intro plit q u b hm
    have := List.all_eq_true.mp h _ hm
    simpa using this

/-- What one successful call of `UnitWord.parse` on `s` has consumed, leaving `rest`
and returning the stored prefix `p` and the unit `u`. `k`, `j` count separator
dashes. In each case the literals are longest matches of their lexer table. -/
inductive Piece (s rest : List Char) (p : Int) (u : UnitKey) : Prop
  /-- a unit-name literal of the first lexer; the stored prefix is the literal's bias -/
  | name (k : Nat) (lit : List Char) (bias : Int)
      (split : s = List.replicate k '-' ++ lit ++ rest)
      (row : (lit, WordAction.unit u bias) ∈ Generated.combined)
      (longest : UnitWord.IsLongest Generated.combined lit (lit ++ rest))
      (pfx : p = bias)
  /-- a prefix literal with nothing after it that also is a unit name (`m`, `h`, `T` …) -/
  | alone (k : Nat) (lit : List Char) (q bias : Int)
      (split : s = List.replicate k '-' ++ lit) (nothing : rest = [])
      (row : (lit, WordAction.pfx q (some (u, bias))) ∈ Generated.combined)
      (unitRow : (lit, WordAction.unit u bias) ∈ Generated.unitsOnly)
      (longest : UnitWord.IsLongest Generated.combined lit lit)
      (pfx : p = bias)
  /-- a prefix literal, then a unit-name literal of the second lexer; the stored prefix
  is the prefix's power of ten plus the name's bias -/
  | prefixed (k j : Nat) (plit nlit : List Char) (q bias : Int) (alone : Option (UnitKey × Int))
      (split : s = List.replicate k '-' ++ plit ++ (List.replicate j '-' ++ nlit ++ rest))
      (prefixRow : (plit, WordAction.pfx q alone) ∈ Generated.combined)
      (unitRow : (nlit, WordAction.unit u bias) ∈ Generated.unitsOnly)
      (longestPrefix : UnitWord.IsLongest Generated.combined plit
        (plit ++ (List.replicate j '-' ++ nlit ++ rest)))
      (longestName : UnitWord.IsLongest Generated.unitsOnly nlit (nlit ++ rest))
      (pfx : p = q + bias)

/-- **C05 (reading, one piece).** For EVERY character list `s`: if `parse` accepts, it
has consumed dashes, possibly a prefix literal, and a unit-name literal — entries of
the generated tables that map to that prefix exponent and to that unit with that bias
— and the remainder is strictly shorter than `s`. -/
theorem C05_reading (s rest : List Char) (p : Int) (u : UnitKey)
    (h : UnitWord.parse s = some (rest, p, u)) : Piece s rest p u ∧ rest.length < s.length := by
  obtain ⟨hsep, hne, halone⟩ := C05_table_shape
  have hsepC : ∀ lit, (lit, WordAction.sep) ∈ Generated.combined → lit = ['-'] :=
    fun lit hm => hsep lit (List.mem_append_right _ hm)
  have hsepU : ∀ lit, (lit, WordAction.sep) ∈ Generated.unitsOnly → lit = ['-'] :=
    fun lit hm => hsep lit (List.mem_append_left _ hm)
  have neC : ∀ lit act, (lit, act) ∈ Generated.combined → act ≠ WordAction.sep → lit ≠ [] := by
    intro lit act hm ha
    obtain ⟨c, cs, rfl, _⟩ := hne lit act (List.mem_append_right _ hm) ha
    simp
  have neU : ∀ lit act, (lit, act) ∈ Generated.unitsOnly → act ≠ WordAction.sep → lit ≠ [] := by
    intro lit act hm ha
    obtain ⟨c, cs, rfl, _⟩ := hne lit act (List.mem_append_left _ hm) ha
    simp
  unfold UnitWord.parse at h
  split at h
  · simp at h
  · rename_i rest' p' u' h1
    simp only [Option.some.injEq, Prod.mk.injEq] at h
    obtain ⟨rfl, rfl, rfl⟩ := h
    obtain ⟨seps, lit, hS, hs, hlong, hcase⟩ := UnitWord.phase1_done h1
    obtain ⟨k, rfl⟩ := hS.replicate hsepC
    rcases hcase with ⟨bias, hm, hp⟩ | ⟨q, bias, hm, hr, hp⟩
    · exact ⟨.name k lit bias hs hm hlong (by omega),
        UnitWord.length_lt_of_split hs (neC _ _ hm (by simp))⟩
    · subst hr
      refine ⟨.alone k lit q bias (by simpa using hs) rfl hm (halone _ _ _ _ hm)
        (by simpa using hlong) (by omega), UnitWord.length_lt_of_split hs (neC _ _ hm (by simp))⟩
  · rename_i rest' p' h1
    obtain ⟨seps, plit, q, alone, hS, hs, hlong, hm, hp, _⟩ := UnitWord.phase1_cont h1
    obtain ⟨k, rfl⟩ := hS.replicate hsepC
    obtain ⟨seps2, nlit, bias, hS2, hs2, hlong2, hm2, hp2⟩ := UnitWord.phase2_some h
    obtain ⟨j, rfl⟩ := hS2.replicate hsepU
    subst hs2
    refine ⟨.prefixed k j plit nlit q bias alone hs hm hm2 hlong hlong2 (by omega), ?_⟩
    have := UnitWord.length_lt_of_split hs (neC _ _ hm (by simp))
    simp only [List.length_append] at this ⊢
    omega

/-- A word read completely as a sequence of pieces `(stored prefix, unit)`. -/
inductive Reading : List Char → List (Int × UnitKey) → Prop
  | nil : Reading [] []
  | cons {s rest : List Char} {p : Int} {u : UnitKey} {tl : List (Int × UnitKey)} :
      Piece s rest p u → rest.length < s.length → Reading rest tl → Reading s ((p, u) :: tl)

/-- **C05 (reading, whole word).** Whenever the `parser.next()` loop accepts a word,
the word is a concatenation of `[prefix-literal] unit-literal` pieces (dashes between
them), each read with the meaning the lexer tables give to its literals. -/
theorem C05_reading_word (s : List Char) (l : List (Int × UnitKey))
    (h : UnitWord.parseWord s = some l) : Reading s l := by
  unfold UnitWord.parseWord at h
  generalize s.length + 1 = fuel at h
  induction fuel generalizing s l with
  | zero => simp [UnitWord.parseAll] at h
  | succ fuel ih =>
    rcases UnitWord.parseAll_cons h with ⟨rfl, rfl⟩ | ⟨rest, p, u, tl, hp, hlt, htl, rfl⟩
    · exact .nil
    · exact .cons (C05_reading s rest p u hp).1 hlt (ih rest tl htl)

/-- **C05 (reading, against the specification).** Whenever the tool accepts a unit
word, its interpretation is one of the valid readings of that word enumerated by
`Spec.Words.readings`: SI prefix plus unit name(s) from the tables. -/
theorem C05_reading_spec (s : List Char) (l : List (Int × UnitKey))
    (h : UnitWord.parseWord s = some l) : l ∈ Words.readings (s.length + 1) s := by
  obtain ⟨_, hne, _⟩ := C05_table_shape
  have hR := C05_reading_word s l h
  suffices H : ∀ fuel, s.length < fuel → l ∈ Words.readings fuel s from H _ (Nat.lt_succ_self _)
  clear h
  induction hR with
  | nil =>
    intro fuel hf
    cases fuel with
    | zero => omega
    | succ fuel => simp [Words.readings, Words.skipSep_nil]
  | @cons s rest p u tl hP hlt _ ih =>
    intro fuel hf
    cases fuel with
    | zero => omega
    | succ fuel =>
      have htl := ih fuel (by omega)
      cases hP with
      | name k lit bias split row _ pfx =>
        obtain ⟨c, cs, rfl, hc⟩ := hne lit _ (List.mem_append_right _ row) (by simp)
        subst split pfx
        simp only [Words.readings, List.append_assoc, Words.skipSep_replicate, List.cons_append,
          Words.skipSep_cons _ hc, List.isEmpty_cons, Bool.false_eq_true, ↓reduceIte,
          List.flatMap_cons, List.mem_append]
        left
        simp only [List.mem_flatMap]
        refine ⟨_, Words.mem_nameTable_combined row, ?_⟩
        have hp := Words.isPrefixOf_append (c :: cs) rest
        simp only [List.cons_append] at hp
        simp only [List.isEmpty_cons, Bool.not_false, hp, Bool.and_self, ↓reduceIte, List.mem_map]
        refine ⟨tl, ?_, by simp⟩
        simpa using htl
      | alone k lit q bias split nothing row unitRow _ pfx =>
        obtain ⟨c, cs, rfl, hc⟩ := hne lit _ (List.mem_append_left _ unitRow) (by simp)
        subst split pfx nothing
        simp only [Words.readings, Words.skipSep_replicate,
          Words.skipSep_cons _ hc, List.isEmpty_cons, Bool.false_eq_true, ↓reduceIte,
          List.flatMap_cons, List.mem_append]
        left
        simp only [List.mem_flatMap]
        refine ⟨_, Words.mem_nameTable_unitsOnly unitRow, ?_⟩
        have hp := Words.isPrefixOf_append (c :: cs) []
        simp only [List.append_nil] at hp
        simp only [List.isEmpty_cons, Bool.not_false, hp, Bool.and_self, ↓reduceIte, List.mem_map]
        refine ⟨tl, ?_, by simp⟩
        simpa using htl
      | prefixed k j plit nlit q bias alone split prefixRow unitRow _ _ pfx =>
        obtain ⟨c, cs, rfl, hc⟩ := hne plit _ (List.mem_append_right _ prefixRow) (by simp)
        obtain ⟨d, ds, rfl, hd⟩ := hne nlit _ (List.mem_append_left _ unitRow) (by simp)
        subst split pfx
        simp only [Words.readings, List.append_assoc, Words.skipSep_replicate, List.cons_append,
          Words.skipSep_cons _ hc, List.isEmpty_cons, Bool.false_eq_true, ↓reduceIte,
          List.flatMap_cons, List.mem_append]
        right
        simp only [List.mem_flatMap, List.mem_filterMap]
        refine ⟨(q, d :: ds ++ rest), ⟨_, Words.mem_prefixTable prefixRow, ?_⟩, ?_⟩
        · have hp := Words.isPrefixOf_append (c :: cs) (List.replicate j '-' ++ (d :: (ds ++ rest)))
          simp only [List.cons_append] at hp
          simp only [hp, ↓reduceIte, Option.some.injEq, Prod.mk.injEq, true_and]
          have : List.drop (c :: cs).length (c :: (cs ++ (List.replicate j '-' ++ d :: (ds ++ rest))))
              = List.replicate j '-' ++ d :: (ds ++ rest) := by
            simp
          rw [this, Words.skipSep_replicate, Words.skipSep_cons _ hd]
          simp
        · refine ⟨_, Words.mem_nameTable_unitsOnly unitRow, ?_⟩
          have hp := Words.isPrefixOf_append (d :: ds) rest
          simp only [hp, List.isEmpty_cons, Bool.not_false, Bool.and_self, ↓reduceIte, List.mem_map]
          refine ⟨tl, ?_, by simp⟩
          simpa using htl

/-- **C05 (reading, as evaluated).** The WORD branch of `eval::unit` accepts a word
exactly through such a reading: the word is a concatenation of pieces (`Reading`), one
of the specification's valid readings, and the compound is updated with every piece
at the current sign `cur`. -/
theorem C05_reading_wordUnits (cur : Int) (s : List Char) (c c' : Compound)
    (last last' : Option (UnitKey × Int))
    (h : Eval.wordUnits cur (s.length + 1) s c last = .ok (c', last')) :
    ∃ l, Reading s l ∧ l ∈ Words.readings (s.length + 1) s ∧
      applyPieces cur c l = .ok c' ∧ last' = lastPiece l last := by
  obtain ⟨l, hp, hu, hl⟩ := wordUnits_ok h
  exact ⟨l, C05_reading_word s l hp, C05_reading_spec s l hp, hu, hl⟩

/-- **C05 (reading, standard meaning).** Putting the pieces together: whatever `parse`
accepts at the front of a word is an optional SI prefix of the reference (with its
power of ten `q`) followed by a unit name of the tables; the stored prefix is
`q + bias`; and unless the name is one of the known deviations, the unit has the
dimensions and — with the bias — an admissible exact scale of the reference row for
that name. -/
theorem C05_reading_standard (s rest : List Char) (p : Int) (u : UnitKey)
    (h : UnitWord.parse s = some (rest, p, u)) :
    ∃ (k j : Nat) (plit nlit : List Char) (q bias : Int),
      s = List.replicate k '-' ++ plit ++ (List.replicate j '-' ++ nlit ++ rest) ∧
      ((plit = [] ∧ j = 0 ∧ q = 0) ∨ refPrefix plit = some q) ∧
      p = q + bias ∧ (nlit, WordAction.unit u bias) ∈ allRows ∧
      (nlit ∉ deviating → Admissible nlit u bias) := by
  obtain ⟨hP, _⟩ := C05_reading s rest p u h
  cases hP with
  | name k lit bias split row _ pfx =>
    have hm : (lit, WordAction.unit u bias) ∈ allRows := List.mem_append_right _ row
    exact ⟨k, 0, [], lit, 0, bias, by simpa using split, Or.inl ⟨rfl, rfl, rfl⟩, by omega, hm,
      C05_table lit u bias hm⟩
  | alone k lit q bias split nothing row unitRow _ pfx =>
    have hm : (lit, WordAction.unit u bias) ∈ allRows := List.mem_append_left _ unitRow
    exact ⟨k, 0, [], lit, 0, bias, by simpa [nothing] using split, Or.inl ⟨rfl, rfl, rfl⟩, by omega, hm,
      C05_table lit u bias hm⟩
  | prefixed k j plit nlit q bias alone split prefixRow unitRow _ _ pfx =>
    have hm : (nlit, WordAction.unit u bias) ∈ allRows := List.mem_append_left _ unitRow
    exact ⟨k, j, plit, nlit, q, bias, split, Or.inr (C05_prefix_table.1 plit q alone prefixRow), pfx, hm,
      C05_table nlit u bias hm⟩

/-- Non-vacuity of `C05_reading`: `kWh` is read one piece at a time — kilo + watt,
leaving `h` — and as a whole word it is kilowatt · hour, a reading the specification
lists; `m` alone is the metre, `k-m` the kilometre. -/
example : UnitWord.parse "kWh".toList = some (['h'], 3, .derived 2843211920) ∧
    UnitWord.parseWord "kWh".toList = some [(3, .derived 2843211920), (0, .derived 1021968385)] ∧
    UnitWord.parse ['m'] = some ([], 0, .base .Meter) ∧
    UnitWord.parse "k-m".toList = some ([], 3, .base .Meter) ∧
    UnitWord.parseWord "dalek".toList = none := by decide +kernel

/-! ## Unit expressions -/

section Loop
open Eval

/-- Children without children of their own (tokens such as blanks) are invisible. -/
theorem C05_expr_skip (cur : Int) (c : Compound) (last : Option (UnitKey × Int))
    (pending : Option (Option (UnitKey × Int) × At)) (a : At) (rest : List At)
    (ha : a.t.hasChildren = false) :
    unitLoop cur c last pending (a :: rest) = unitLoop cur c last pending rest := by
  simp [unitLoop, ha]

/-- (a) `*` and blanks multiply: an OP_MUL or WHITESPACE child leaves the sign, the
compound and the last unit unchanged. -/
theorem C05_expr_mul (cur : Int) (c : Compound) (last : Option (UnitKey × Int)) (a : At) (rest : List At)
    (ha : a.t.hasChildren = true) (hk : a.t.kind = .OP_MUL ∨ a.t.kind = .WHITESPACE) :
    unitLoop cur c last none (a :: rest) = unitLoop cur c last none rest := by
  rcases hk with hk | hk <;> simp [unitLoop, ha, hk]

/-- (b) `/` inverts everything after it: an OP_DIV child negates the sign for the
whole remaining list (nothing ever resets it). -/
theorem C05_expr_div (cur : Int) (c : Compound) (last : Option (UnitKey × Int)) (a : At) (rest : List At)
    (ha : a.t.hasChildren = true) (hk : a.t.kind = .OP_DIV) :
    unitLoop cur c last none (a :: rest) = unitLoop (-cur) c last none rest := by
  simp [unitLoop, ha, hk]

/-- A number other than a `^` exponent must be `1` (as in `1/s`) and changes nothing. -/
theorem C05_expr_one (cur : Int) (c : Compound) (last : Option (UnitKey × Int)) (a : At) (rest : List At)
    (ha : a.t.hasChildren = true) (hk : a.t.kind = .NUMBER) (hn : parseI32 a.t.text = some 1) :
    unitLoop cur c last none (a :: rest) = unitLoop cur c last none rest := by
  simp [unitLoop, ha, hk, hn]

/-- A WORD child adds `cur` to the power of each of its units, in order, and makes its
last unit the one a following `^` applies to. -/
theorem C05_expr_word (cur : Int) (c c' : Compound) (last : Option (UnitKey × Int)) (a : At) (rest : List At)
    (l : List (Int × UnitKey))
    (ha : a.t.hasChildren = true) (hk : a.t.kind = .WORD) (hw : UnitWord.parseWord a.t.text = some l)
    (hu : applyPieces cur c l = .ok c') :
    unitLoop cur c last none (a :: rest) = unitLoop cur c' (lastPiece l last) none rest := by
  have := wordUnits_of_pieces (last := last) hw hu
  simp [unitLoop, ha, hk, this]

/-- (c) `^n` applies to the unit it follows: an OP_POWER child followed by the NUMBER
`n` (childless children in between vanish by `C05_expr_skip`) adds `(n-1)·cur` to the power of the
last unit `u` — the word itself contributed `cur`, so the occurrence counts `n·cur` —
and only touches `u`. -/
theorem C05_expr_pow (cur : Int) (c : Compound) (u : UnitKey) (pfx : Int) (op num : At) (rest : List At)
    (n : Int) (ho : op.t.hasChildren = true) (hko : op.t.kind = .OP_POWER)
    (ha : num.t.hasChildren = true) (hk : num.t.kind = .NUMBER) (hn : parseI32 num.t.text = some n)
    (hr : -2147483648 ≤ (n - 1) * cur ∧ (n - 1) * cur ≤ 2147483647) :
    unitLoop cur c (some (u, pfx)) none (op :: num :: rest) =
      if (n - 1) * cur = 0 then unitLoop cur c none none rest
      else match Compound.update c u ((n - 1) * cur) pfx with
        | .ok c' => unitLoop cur c' none none rest
        | .error _ => err .prefixMismatch num.off num.stop := by
  have h1 : ¬ ((n - 1) * cur < -2147483648 ∨ (n - 1) * cur > 2147483647) := by omega
  by_cases h0 : (n - 1) * cur = 0
  · simp [unitLoop, ho, hko, ha, hk, hn, h0]
  · simp only [unitLoop, ho, hko, ha, hk, hn, h0, h1, Bool.not_true, Bool.false_eq_true, ↓reduceIte,
      beq_self_eq_true, not_false_eq_true, ne_eq, Bool.or_eq_true, decide_eq_true_eq]
    cases Compound.update c u ((n - 1) * cur) pfx <;> rfl

/-- A child of a UNIT node that has children of its own, as `eval::unit` sees it. -/
inductive Item
  /-- a WORD that the unit-word parser reads as these `(stored prefix, unit)` pieces -/
  | word (pieces : List (Int × UnitKey))
  /-- a NUMBER that is an `i32` -/
  | num (n : Int)
  | mul | div | caret | blank
  /-- anything else (a word that is no unit, a malformed number, another node kind) -/
  | other

def classify (a : Eval.At) : Item :=
  match a.t.kind with
  | .WORD => match UnitWord.parseWord a.t.text with
    | some l => .word l
    | none => .other
  | .NUMBER => match Eval.parseI32 a.t.text with
    | some n => .num n
    | none => .other
  | .OP_MUL => .mul
  | .OP_DIV => .div
  | .OP_POWER => .caret
  | .WHITESPACE => .blank
  | _ => .other

/-- The children of a UNIT node that `eval::unit` looks at, classified. -/
def items (kids : List Eval.At) : List Item := (kids.filter (·.t.hasChildren)).map classify

/-- **The specification's reading of a unit expression.** `cur` is `+1` before and
`-1` after a `/` (it flips and stays flipped); `last` is the unit a `^` would apply to.
Juxtaposed words, `*` and blanks multiply: every piece of a word is a factor
`(10^prefix · unit)^cur`. `^ n` raises the unit it follows to the `n`-th power: on top
of the factor `…^cur` already counted it contributes `…^((n-1)·cur)`. A number other
than an exponent must be `1`. Everything else has no reading. -/
def reading : Int → Option (UnitKey × Int) → List Item → Option UnitSem
  | _, _, [] => some []
  | cur, last, .mul :: r => reading cur last r
  | cur, last, .blank :: r => reading cur last r
  | cur, last, .div :: r => reading (-cur) last r
  | cur, last, .num n :: r => if n = 1 then reading cur last r else none
  | cur, last, .word l :: r =>
    (reading cur (lastPiece l last) r).map
      (fun sem => l.map (fun pu => { pfx := pu.1, key := pu.2, power := cur }) ++ sem)
  | cur, some (u, pfx), .caret :: .num n :: r =>
    (reading cur none r).map (fun sem => { pfx := pfx, key := u, power := (n - 1) * cur } :: sem)
  | _, _, .caret :: _ => none
  | _, _, .other :: _ => none

/-- **C05 (unit expression, general form).** Whenever the loop of `eval::unit` accepts a
list of children — started with any sign `cur`, any sorted compound `c`, any last
unit and possibly in the middle of a `^` — the specification's reading of the
classified children exists, and the resulting compound is `c` times that reading:
same dimensions, same exact scale. The description log is untouched. -/
theorem C05_expr_loop (kids : List Eval.At) :
    ∀ (cur : Int) (c : Compound) (last : Option (UnitKey × Int))
      (pending : Option (Option (UnitKey × Int) × Eval.At)) (d d' : List Desc) (c' : Compound),
      AMap.Sorted c → Eval.unitLoop cur c last pending kids d = (.ok c', d') →
      ∃ sem,
        (match pending with
          | none => reading cur last (items kids)
          | some (lt, _) => reading cur lt (.caret :: items kids)) = some sem ∧
        d' = d ∧ AMap.Sorted c' ∧
        (∀ k, dimsFn c' k = dimsFn c k + dimsFn (ofSem sem) k) ∧
        scaleC c' = scaleC c * scaleC (ofSem sem) := by
  induction kids with
  | nil =>
    intro cur c last pending d d' c' hs h
    cases pending with
    | none =>
      simp only [Eval.unitLoop, pure, Prod.mk.injEq, Except.ok.injEq] at h
      obtain ⟨rfl, rfl⟩ := h
      exact ⟨[], by simp [items, reading], rfl, hs, by simp [ofSem, dimsFn_nil], by simp [ofSem, scaleC_nil]⟩
    | some p => simp [Eval.unitLoop, Eval.err, EvalM.throw] at h
  | cons a rest ih =>
    intro cur c last pending d d' c' hs h
    by_cases hc : a.t.hasChildren = true
    swap
    · have hc : a.t.hasChildren = false := by simpa using hc
      rw [C05_expr_skip _ _ _ _ _ _ hc] at h
      have hi : items (a :: rest) = items rest := by simp [items, hc]
      rw [hi]
      exact ih cur c last pending d d' c' hs h
    have hi : items (a :: rest) = classify a :: items rest := by simp [items, hc]
    rw [hi]
    cases pending with
    | some p =>
      obtain ⟨lt, op⟩ := p
      cases lt with
      | none => simp [Eval.unitLoop, hc, Eval.err, EvalM.throw] at h
      | some np =>
        obtain ⟨name, pfx⟩ := np
        by_cases hk : a.t.kind = .NUMBER
        swap
        · simp [Eval.unitLoop, hc, hk, Eval.err, EvalM.throw] at h
        cases hn : Eval.parseI32 a.t.text with
        | none => simp [Eval.unitLoop, hc, hk, hn, Eval.err, EvalM.throw] at h
        | some n =>
          by_cases hr : (n - 1) * cur < -2147483648 ∨ (n - 1) * cur > 2147483647
          · simp [Eval.unitLoop, hc, hk, hn, hr, Eval.err, EvalM.throw] at h
          by_cases h0 : (n - 1) * cur = 0
          · simp only [Eval.unitLoop, hc, hk, hn, h0, Bool.not_true, Bool.false_eq_true, ↓reduceIte,
              beq_self_eq_true, ne_eq, not_true_eq_false, Bool.or_eq_true, decide_eq_true_eq] at h
            obtain ⟨sem, hr', hd, hs', hdim, hsc⟩ := ih cur c none none d d' c' hs h
            refine ⟨{ pfx := pfx, key := name, power := (n - 1) * cur } :: sem, ?_, hd, hs', ?_, ?_⟩
            · simp only at hr'
              simp [classify, hk, hn, reading, hr']
            · intro k
              rw [hdim]
              simp only [ofSem, List.map_cons, dimsFn_cons, h0]; ring
            · rw [hsc]
              simp only [ofSem, List.map_cons, scaleC_cons, term, h0]; simp
          · cases hu : Compound.update c name ((n - 1) * cur) pfx with
            | error e =>
              simp [Eval.unitLoop, hc, hk, hn, hr, h0, hu, Eval.err, EvalM.throw] at h
            | ok c1 =>
              simp only [Eval.unitLoop, hc, hk, hn, hr, h0, hu, Bool.not_true, Bool.false_eq_true, ↓reduceIte,
                beq_self_eq_true, ne_eq, not_false_eq_true, Bool.or_eq_true, decide_eq_true_eq] at h
              obtain ⟨s1, d1, sc1⟩ := update_sem hs hu
              obtain ⟨sem, hr', hd, hs', hdim, hsc⟩ := ih cur c1 none none d d' c' s1 h
              refine ⟨{ pfx := pfx, key := name, power := (n - 1) * cur } :: sem, ?_, hd, hs', ?_, ?_⟩
              · simp only at hr'
                simp [classify, hk, hn, reading, hr']
              · intro k
                rw [hdim, d1]
                simp only [ofSem, List.map_cons, dimsFn_cons]; ring
              · rw [hsc, sc1]
                simp only [ofSem, List.map_cons, scaleC_cons]; ring
    | none =>
      cases hk : a.t.kind with
      | NUMBER =>
        cases hn : Eval.parseI32 a.t.text with
        | none => simp [Eval.unitLoop, hc, hk, hn, Eval.err, EvalM.throw] at h
        | some n =>
          by_cases h1 : n = 1
          · subst h1
            rw [C05_expr_one _ _ _ _ _ hc hk hn] at h
            obtain ⟨sem, hr, rest'⟩ := ih cur c last none d d' c' hs h
            exact ⟨sem, by simp only at hr; simp [classify, hk, hn, reading, hr], rest'⟩
          · simp [Eval.unitLoop, hc, hk, hn, h1, Eval.err, EvalM.throw] at h
      | WORD =>
        cases hw : Eval.wordUnits cur (a.t.text.length + 1) a.t.text c last with
        | error e => simp [Eval.unitLoop, hc, hk, hw, Eval.err, EvalM.throw] at h
        | ok r =>
          obtain ⟨c1, last1⟩ := r
          simp only [Eval.unitLoop, hc, hk, hw, Bool.not_true, Bool.false_eq_true, ↓reduceIte] at h
          obtain ⟨l, hp, hu, hl⟩ := wordUnits_ok hw
          obtain ⟨s1, d1, sc1⟩ := applyPieces_sem hs hu
          obtain ⟨sem, hr, hd, hs', hdim, hsc⟩ := ih cur c1 last1 none d d' c' s1 h
          refine ⟨l.map (fun pu => { pfx := pu.1, key := pu.2, power := cur }) ++ sem, ?_, hd, hs', ?_, ?_⟩
          · simp only at hr
            have hp' : UnitWord.parseWord a.t.text = some l := hp
            simp [classify, hk, hp', reading, ← hl, hr]
          · intro k
            rw [hdim, d1, ofSem_append, dimsFn_append, ofSem_pieces]; ring
          · rw [hsc, sc1, ofSem_append, scaleC_append, ofSem_pieces]; ring
      | OP_POWER =>
        simp only [Eval.unitLoop, hc, hk, Bool.not_true, Bool.false_eq_true, ↓reduceIte] at h
        obtain ⟨sem, hr, rest'⟩ := ih cur c none (some (last, a)) d d' c' hs h
        exact ⟨sem, by simp only at hr; simpa [classify, hk] using hr, rest'⟩
      | OP_DIV =>
        rw [C05_expr_div _ _ _ _ _ hc hk] at h
        obtain ⟨sem, hr, rest'⟩ := ih (-cur) c last none d d' c' hs h
        exact ⟨sem, by simp only at hr; simpa [classify, hk, reading] using hr, rest'⟩
      | WHITESPACE =>
        rw [C05_expr_mul _ _ _ _ _ hc (Or.inr hk)] at h
        obtain ⟨sem, hr, rest'⟩ := ih cur c last none d d' c' hs h
        exact ⟨sem, by simp only at hr; simpa [classify, hk, reading] using hr, rest'⟩
      | OP_MUL =>
        rw [C05_expr_mul _ _ _ _ _ hc (Or.inl hk)] at h
        obtain ⟨sem, hr, rest'⟩ := ih cur c last none d d' c' hs h
        exact ⟨sem, by simp only at hr; simpa [classify, hk, reading] using hr, rest'⟩
      | _ => simp [Eval.unitLoop, hc, hk, Eval.err, EvalM.throw] at h

end Loop
/-- **C05 (unit expression).** Whenever `eval::unit` accepts the children of a UNIT
node, the specification's reading of them exists (juxtaposition, `*` and blanks
multiply; `/` inverts everything after it; `^n` applies to the unit it follows) and
the resulting compound has exactly the dimensions and the exact scale
`∏ (10^prefix · factor)^power` of that reading, as `Spec.SI` computes them. -/
theorem C05_expr (kids : List Eval.At) (d d' : List Desc) (c : Compound)
    (h : Eval.unit kids d = (.ok c, d')) :
    ∃ sem, reading 1 none (items kids) = some sem ∧
      SI.dims (semOf c) = SI.dims sem ∧ SI.scale (semOf c) = SI.scale sem ∧
      AMap.Sorted c ∧ d' = d := by
  obtain ⟨sem, hr, hd, hs, hdim, hsc⟩ :=
    C05_expr_loop kids 1 [] none none d d' c AMap.sorted_nil h
  refine ⟨sem, hr, ?_, ?_, hs, hd⟩
  · rw [dims_semOf, dims_sem]
    congr 1; funext b
    rw [hdim, dimsFn_nil, zero_add]
  · rw [scale_semOf, scale_sem, hsc, scaleC_nil, one_mul]

/-- (c), entry by entry: what the `update` of a `^n` does to the compound. Only the
entry of `u` changes: its power goes from `p` to `p + (n-1)·cur`, and the entry is
removed when that is zero. -/
theorem C05_expr_pow_entry (c c' : Compound) (u : UnitKey) (pfx n cur : Int) (hs : AMap.Sorted c)
    (h : Compound.update c u ((n - 1) * cur) pfx = .ok c') :
    (∀ k, k ≠ u → AMap.get? c' k = AMap.get? c k) ∧
    (∀ st, AMap.get? c u = some st → st.pfx = pfx ∧
      AMap.get? c' u = if st.power + (n - 1) * cur = 0 then none
        else some { power := st.power + (n - 1) * cur, pfx := pfx }) :=
  ⟨(update_entry hs h).1, (update_entry hs h).2.2⟩

/-- A WORD child, entry by entry: one piece `(p, u)` adds `cur` to the power of `u`. -/
theorem C05_expr_word_entry (c c' : Compound) (u : UnitKey) (p cur : Int) (hs : AMap.Sorted c)
    (h : applyPieces cur c [(p, u)] = .ok c') :
    (∀ k, k ≠ u → AMap.get? c' k = AMap.get? c k) ∧
    (AMap.get? c u = none → AMap.get? c' u = some { power := cur, pfx := p }) ∧
    (∀ st, AMap.get? c u = some st → st.pfx = p ∧
      AMap.get? c' u = if st.power + cur = 0 then none else some { power := st.power + cur, pfx := p }) := by
  simp only [applyPieces] at h
  split at h
  · rename_i c1 h1
    simp only [Except.ok.injEq] at h
    subst h
    exact update_entry hs h1
  · simp at h

/-- The children of the UNIT node the grammar builds for a source text. -/
def kidsOf (src : String) : List Eval.At :=
  match Grammar.parseUnit src.toList with
  | .ok forest =>
    (match Eval.kidsAt 0 forest with
     | a :: _ => if a.t.kind == .UNIT then a.kids else []
     | [] => [])
  | .error _ => []

/-- Non-vacuity of `C05_expr`: the grammar's children for `km/s^2 kg` are accepted;
everything after the `/` is inverted, `^2` applies to `s` only, the blank multiplies. -/
example : (Eval.unit (kidsOf "km/s^2 kg") []).1.toOption =
      some [(.base .KiloGram, { power := -1, pfx := 0 }), (.base .Meter, { power := 1, pfx := 3 }),
        (.base .Second, { power := -2, pfx := 0 })] ∧
    (reading 1 none (items (kidsOf "km/s^2 kg"))).map (·.map fun t => (t.pfx, t.key, t.power)) =
      some [(3, .base .Meter, 1), (0, .base .Second, -1), (0, .base .Second, -1),
        (0, .base .KiloGram, -1)] := by decide +kernel

/-- The three expressions of the repaired defect `3c99217`: `m*m^2` is m³, `m/m^2` is
m⁻¹ and `m^0` is the empty unit (no zero-power entry). -/
example : (Eval.unit (kidsOf "m*m^2") []).1.toOption = some [(.base .Meter, { power := 3, pfx := 0 })] ∧
    (Eval.unit (kidsOf "m/m^2") []).1.toOption = some [(.base .Meter, { power := -1, pfx := 0 })] ∧
    (Eval.unit (kidsOf "m^0") []).1.toOption = some [] := by decide +kernel

/-! ### Strict reading and the stray `^` -/

/-- **The strict reading**: as `reading`, but a `^` must come directly after a unit
word — `*`, `/`, a blank or a `1` in between leave nothing for it to apply to. -/
def readingStrict : Int → Option (UnitKey × Int) → List Item → Option UnitSem
  | _, _, [] => some []
  | cur, _, .mul :: r => readingStrict cur none r
  | cur, _, .blank :: r => readingStrict cur none r
  | cur, _, .div :: r => readingStrict (-cur) none r
  | cur, _, .num n :: r => if n = 1 then readingStrict cur none r else none
  | cur, _, .word l :: r =>
    (readingStrict cur (lastPiece l none) r).map
      (fun sem => l.map (fun pu => { pfx := pu.1, key := pu.2, power := cur }) ++ sem)
  | cur, some (u, pfx), .caret :: .num n :: r =>
    (readingStrict cur none r).map (fun sem => { pfx := pfx, key := u, power := (n - 1) * cur } :: sem)
  | _, _, .caret :: _ => none
  | _, _, .other :: _ => none

/-- Every strict reading is a reading, with the same factors. -/
theorem C05_expr_strict_reading (cur : Int) (last : Option (UnitKey × Int)) (is : List Item) :
    ∀ (last' : Option (UnitKey × Int)) (sem : UnitSem),
      readingStrict cur last is = some sem → (last = none ∨ last' = last) →
      reading cur last' is = some sem := by
  fun_induction readingStrict cur last is with
  | case1 => intro last' sem h _; simpa [reading] using h
  | case2 cur last r ih => intro last' sem h _; exact ih last' sem h (Or.inl rfl)
  | case3 cur last r ih => intro last' sem h _; exact ih last' sem h (Or.inl rfl)
  | case4 cur last r ih => intro last' sem h _; exact ih last' sem h (Or.inl rfl)
  | case5 cur last r ih =>
    intro last' sem h _
    simp only [reading, ↓reduceIte]
    exact ih last' sem h (Or.inl rfl)
  | case6 => intro last' sem h _; simp at h
  | case7 cur last l r ih =>
    intro last' sem h _
    simp only [Option.map_eq_some_iff] at h
    obtain ⟨sem', h1, rfl⟩ := h
    have : reading cur (lastPiece l last') r = some sem' := by
      cases l with
      | nil => exact ih _ sem' h1 (Or.inl rfl)
      | cons pu tl => obtain ⟨p, u⟩ := pu; exact ih _ sem' h1 (Or.inr rfl)
    simp [reading, this]
  | case8 cur u pfx n r ih =>
    intro last' sem h hl
    simp only [Option.map_eq_some_iff] at h
    obtain ⟨sem', h1, rfl⟩ := h
    rcases hl with hl | hl
    · simp at hl
    · subst hl
      simp [reading, ih none sem' h1 (Or.inl rfl)]
  | case9 => intro last' sem h _; simp at h
  | case10 => intro last' sem h _; simp at h

/-- **C05 (unit expression, strict reading).** When the children of an accepted UNIT node
have a strict reading — every `^n` directly after a unit word — the compound has exactly
the dimensions and the exact scale of that reading. -/
theorem C05_expr_strict (kids : List Eval.At) (d d' : List Desc) (c : Compound)
    (h : Eval.unit kids d = (.ok c, d')) (sem : UnitSem)
    (hs : readingStrict 1 none (items kids) = some sem) :
    SI.dims (semOf c) = SI.dims sem ∧ SI.scale (semOf c) = SI.scale sem := by
  obtain ⟨sem', hr, h1, h2, _⟩ := C05_expr kids d d' c h
  have := C05_expr_strict_reading 1 none (items kids) none sem hs (Or.inl rfl)
  rw [hr] at this
  simp only [Option.some.injEq] at this
  subst this
  exact ⟨h1, h2⟩

/-- The full-strength statement one would like: every accepted unit expression has a
*strict* reading. It is FALSE for the model (and the program): a `^n` that follows
`*`, `/` or a blank-separated operator is not rejected but applied to the last unit
before the operator (`C05_expr_stray_power`). What is proved instead: `C05_expr` (every
accepted expression has the looser `reading`, in which `*`, `/` and blanks do not
forget the last unit) and `C05_expr_strict` (whenever the strict reading exists it is
the one taken). -/
def C05_expr_full_statement : Prop :=
  ∀ (kids : List Eval.At) (d d' : List Desc) (c : Compound), Eval.unit kids d = (.ok c, d') →
    ∃ sem, readingStrict 1 none (items kids) = some sem ∧
      SI.dims (semOf c) = SI.dims sem ∧ SI.scale (semOf c) = SI.scale sem

/-- **Pinned oddity (stray `^`).** The grammar and `eval::unit` accept a `^n` that does
not follow a unit: `m*^2` is read as m², and in `m/^2` the exponent reaches back over
the `/` with the *inverted* sign, so the expression is dimensionless (`m s/^2` is m).
None of the three has a strict reading. -/
theorem C05_expr_stray_power :
    (Eval.unit (kidsOf "m*^2") []).1.toOption = some [(.base .Meter, { power := 2, pfx := 0 })] ∧
    (Eval.unit (kidsOf "m/^2") []).1.toOption = some [] ∧
    (Eval.unit (kidsOf "m s/^2") []).1.toOption = some [(.base .Meter, { power := 1, pfx := 0 })] ∧
    (readingStrict 1 none (items (kidsOf "m*^2"))).isNone = true ∧
    (readingStrict 1 none (items (kidsOf "m/^2"))).isNone = true ∧
    (readingStrict 1 none (items (kidsOf "m s/^2"))).isNone = true := by decide +kernel

theorem C05_expr_full_statement_fails : ¬ C05_expr_full_statement := by
  intro hfull
  obtain ⟨_, h1, _, _, h2, _⟩ := C05_expr_stray_power
  rcases hres : Eval.unit (kidsOf "m/^2") [] with ⟨r, d'⟩
  rw [hres] at h1
  cases r with
  | error e => simp [Except.toOption] at h1
  | ok c =>
    obtain ⟨sem, hs, _⟩ := hfull _ _ _ _ hres
    rw [hs] at h2
    simp at h2

/-! ## Every unit name is accepted on its own -/

/-- `lit` can be typed as a query word: the lexer turns it into exactly one WORD token
(this excludes `Ω` and `g-force`, which the query lexer splits or rejects). -/
def typeable (lit : List Char) : Bool := Lexer.lex lit == [{ kind := .WORD, text := lit }]

/-- The check behind `C05_names`, row by row. -/
def nameAccepted (r : List Char × WordAction) : Bool :=
  match r.2 with
  | .unit k b => !typeable r.1 || UnitWord.parse r.1 == some ([], b, k)
  | _ => true

/-- **C05 (the two lexers agree).** A unit-name literal of the first (`Combined`) lexer
is a literal of the second (`Units`) lexer with the same unit and the same bias: a
name means the same thing with and without a prefix in front of it. -/
theorem C05_tables_agree (lit : List Char) (k : UnitKey) (bias : Int)
    (hm : (lit, WordAction.unit k bias) ∈ Generated.combined) :
    (lit, WordAction.unit k bias) ∈ Generated.unitsOnly := by
  have h : Generated.combined.all (fun r => match r.2 with
      | .unit _ _ => Generated.unitsOnly.contains r
      | _ => true) = true := by decide +kernel
  have := List.all_eq_true.mp h _ hm
  simpa using this

/-- **C05 (names).** Every unit name of the lexer tables that can be typed as a query
word is accepted on its own, completely, as exactly that unit: `parse` consumes the
whole word and returns the table's unit with the name's own bias as stored prefix
(`g` ↦ kilogram with prefix −3); the word loop of `eval::unit` turns it into that unit
with power one. Checked row by row over the whole table, in four chunks. -/
theorem C05_names (lit : List Char) (k : UnitKey) (bias : Int)
    (hm : (lit, WordAction.unit k bias) ∈ allRows) (ht : typeable lit = true) :
    UnitWord.parse lit = some ([], bias, k) ∧
    UnitWord.parseWord lit = some [(bias, k)] ∧
    Eval.wordUnits 1 (lit.length + 1) lit [] none =
      .ok ([(k, { power := 1, pfx := bias })], some (k, bias)) := by
  have h0 : (Generated.unitsOnly.take 60).all nameAccepted = true := by decide +kernel
  have h1 : ((Generated.unitsOnly.drop 60).take 60).all nameAccepted = true := by decide +kernel
  have h2 : ((Generated.unitsOnly.drop 120).take 60).all nameAccepted = true := by decide +kernel
  have h3 : (Generated.unitsOnly.drop 180).all nameAccepted = true := by decide +kernel
  have hall : Generated.unitsOnly.all nameAccepted = true := by
    apply UnitWord.all_of_take_drop _ 60 _ h0
    apply UnitWord.all_of_take_drop _ 60 _ h1
    apply UnitWord.all_of_take_drop _ 60 _ (by simpa using h2)
    simpa using h3
  have hm' : (lit, WordAction.unit k bias) ∈ Generated.unitsOnly :=
    (List.mem_append.mp hm).elim id (C05_tables_agree lit k bias)
  have hp : UnitWord.parse lit = some ([], bias, k) := by
    have := List.all_eq_true.mp hall _ hm'
    simpa [nameAccepted, ht] using this
  have hw := UnitWord.parseWord_single hp
  refine ⟨hp, hw, ?_⟩
  have := wordUnits_of_pieces (cur := 1) (c := []) (last := none) hw
    (c' := [(k, { power := 1, pfx := bias })]) (by simp [applyPieces, Compound.update, AMap.get?, AMap.insert])
  simpa [lastPiece] using this

/-- Non-vacuity: `mile` (a plain name), `g` (the biased name) and `m` (a prefix letter
with a stand-alone meaning) are typeable literals of the tables. -/
example : (['m', 'i', 'l', 'e'], WordAction.unit (.derived 3553165315) 0) ∈ allRows ∧
    typeable ['m', 'i', 'l', 'e'] = true ∧
    (['g'], WordAction.unit (.base .KiloGram) (-3)) ∈ allRows ∧ typeable ['g'] = true ∧
    (['m'], WordAction.unit (.base .Meter) 0) ∈ allRows ∧ typeable ['m'] = true := by decide +kernel

/-- The two literals that cannot be typed as one query word. -/
example : (allRows.filter (fun r => match r.2 with
    | .unit _ _ => !typeable r.1
    | _ => false)).map (·.1) = ["g-force".toList, "Ω".toList, "g-force".toList, "Ω".toList] := by
  decide +kernel

/-! ### The names the tool prints -/

/-- The display names (singular, plural) the tool prints for a derived unit and that do
not read back as that unit: g-force is printed `g`, which reads as the gram; the
plural of `btu` is printed `btus`, which is no literal and reads as btu · second. -/
def displayDeviations : List (Nat × List Char) :=
  [(3089834321, ['g']), (3481565844, ['b', 't', 'u', 's'])]

/-- **C05 (display names).** The singular and plural name the tool prints for a derived
unit, when it can be typed as one query word, is accepted on its own as exactly that
unit with no prefix — except the two pinned `displayDeviations`. -/
theorem C05_display_names (d : UnitDef) (hd : d ∈ Generated.units) (n : List Char)
    (hn : n = d.sing ∨ n = d.plur) (ht : typeable n = true) (hx : (d.id, n) ∉ displayDeviations) :
    UnitWord.parseWord n = some [(0, .derived d.id)] := by
  have h : Generated.units.all (fun d => [d.sing, d.plur].all (fun n =>
      !typeable n || displayDeviations.contains (d.id, n) ||
        UnitWord.parseWord n == some [(0, .derived d.id)])) = true := by decide +kernel
  have := List.all_eq_true.mp (List.all_eq_true.mp h d hd) n (by simpa using hn)
  simpa [ht, hx] using this

/-- The two display names that do not read back, pinned: `g` is the gram (kilogram with
stored prefix −3), `btus` is btu · second. -/
theorem C05_pinned_display :
    (∃ d ∈ Generated.units, d.id = 3089834321 ∧ d.sing = ['g'] ∧ d.plur = ['g']) ∧
    UnitWord.parseWord ['g'] = some [(-3, .base .KiloGram)] ∧
    (∃ d ∈ Generated.units, d.id = 3481565844 ∧ d.plur = ['b', 't', 'u', 's']) ∧
    UnitWord.parseWord ['b', 't', 'u', 's'] = some [(0, .derived 3481565844), (0, .base .Second)] := by
  decide +kernel

/-- Non-vacuity: the newton is printed `N`, a typeable name outside the exceptions. -/
example : (∃ d ∈ Generated.units, d.id = 353022001 ∧ d.sing = ['N']) ∧ typeable ['N'] = true ∧
    (353022001, ['N']) ∉ displayDeviations := by decide +kernel

end Anything.Props.C05
