import Anything.Model.Cli
import Anything.Spec.Words
namespace Anything.Props.C05
theorem C05_placeholder : True := trivial
end Anything.Props.C05
