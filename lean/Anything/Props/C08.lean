import Anything.Lemmas.DisplayValue
import Anything.Generated.KnobsDefault
/-!
# C08 — printed decimals are faithful and never silently truncated

Property theorems only; the proofs' machinery is in `Lemmas/PrintedParse`
(printer/parser), `Lemmas/DisplayPaths` (long-division invariant and the three
printing paths `formatBig`, `formatWhole`, small-number loop) and
`Lemmas/DisplayValue` (value criterion).

All theorems quantify over EVERY rational `r` and EVERY display specification
with `limit ≥ 1`, `exponentLimit ≥ 1` and the continuation mark switched on; no
bound on sizes. `C08_limit_zero_*` say what happens for `limit = 0`: the big and
whole paths stay faithful, the small-number path prints the unreadable `…e-1`.

`Spec.Printed.faithful r rd` is the specification's Boolean; `C08_faithful_unfolded`
restates it in ordinary notation (`|r|`, `≤`, `<`).
-/

namespace Anything.Props.C08
open Anything Anything.Display Anything.Spec.Printed Anything.Lemmas.Printed

/-- The signed number a reading denotes. -/
def signedValue (rd : Read) : Rat := if rd.neg then -rd.magnitude else rd.magnitude

/-- **C08, main theorem.** For every rational and every display specification with a
positive digit budget, the printed text is readable and what is read is `r` cut off
toward zero at the last printed digit, with the right sign, and with the mark
exactly when something non-zero was cut off. -/
theorem C08_faithful (spec : Display.Spec) (r : Rat) (hl : 1 ≤ spec.limit)
    (he : 1 ≤ spec.exponentLimit) (hc : spec.showContinuation = true) :
    ∃ rd, readBack (fmt spec r) = some rd ∧ faithful r rd = true := by
  obtain ⟨rd, h1, h2, _⟩ := good_faithful r _ (fmt_good spec hc he r (Or.inl hl))
  exact ⟨rd, h1, h2⟩

/-- The same in ordinary notation: `m ≤ |r| < m + ulp`, the mark flag is set exactly
when `m ≠ |r|`, the sign flag exactly when `r < 0`. -/
theorem C08_faithful_unfolded (spec : Display.Spec) (r : Rat) (hl : 1 ≤ spec.limit)
    (he : 1 ≤ spec.exponentLimit) (hc : spec.showContinuation = true) :
    ∃ rd, readBack (fmt spec r) = some rd ∧
      rd.magnitude ≤ |r| ∧ |r| < rd.magnitude + rd.ulp ∧
      (rd.mark = true ↔ rd.magnitude ≠ |r|) ∧ (rd.neg = true ↔ r < 0) := by
  obtain ⟨rd, h1, h2⟩ := C08_faithful spec r hl he hc
  exact ⟨rd, h1, (faithful_iff r rd).mp h2⟩

/-- **The mark is present exactly when digits were cut off**: the character `…`
occurs in the printed text iff the printed magnitude differs from `|r|`. -/
theorem C08_mark_iff (spec : Display.Spec) (r : Rat) (hl : 1 ≤ spec.limit)
    (he : 1 ≤ spec.exponentLimit) (hc : spec.showContinuation = true) :
    ∃ rd, readBack (fmt spec r) = some rd ∧
      ('…' ∈ fmt spec r ↔ rd.mark = true) ∧ ('…' ∈ fmt spec r ↔ rd.magnitude ≠ |r|) := by
  obtain ⟨rd, h1, h2, h3⟩ := good_faithful r _ (fmt_good spec hc he r (Or.inl hl))
  obtain ⟨_, _, h4, _⟩ := (faithful_iff r rd).mp h2
  exact ⟨rd, h1, h3, h3.trans h4⟩

/-- **Text without the mark reads back to exactly the value printed**, sign included. -/
theorem C08_no_mark_exact (spec : Display.Spec) (r : Rat) (hl : 1 ≤ spec.limit)
    (he : 1 ≤ spec.exponentLimit) (hc : spec.showContinuation = true)
    (hno : '…' ∉ fmt spec r) :
    ∃ rd, readBack (fmt spec r) = some rd ∧ signedValue rd = r := by
  obtain ⟨rd, h1, h2, h3⟩ := C08_mark_iff spec r hl he hc
  obtain ⟨rd', h1', _, _, _, h5⟩ := C08_faithful_unfolded spec r hl he hc
  have hrd : rd' = rd := by rw [h1] at h1'; exact (Option.some.inj h1').symm
  subst hrd
  have hm : rd'.magnitude = |r| := by
    by_contra h; exact hno (h3.mpr h)
  refine ⟨rd', h1, ?_⟩
  unfold signedValue
  by_cases hr : r < 0
  · rw [if_pos (h5.mpr hr), hm, abs_of_neg hr, neg_neg]
  · have : rd'.neg = false := by
      cases hn : rd'.neg with
      | false => rfl
      | true => exact absurd (h5.mp hn) hr
    rw [this, hm, abs_of_nonneg (not_lt.mp hr)]
    rfl

/-- Conversely a text with the mark reads back to a value strictly closer to zero,
less than one unit in the last printed place away. -/
theorem C08_mark_strict (spec : Display.Spec) (r : Rat) (hl : 1 ≤ spec.limit)
    (he : 1 ≤ spec.exponentLimit) (hc : spec.showContinuation = true)
    (hmark : '…' ∈ fmt spec r) :
    ∃ rd, readBack (fmt spec r) = some rd ∧ rd.magnitude < |r| ∧ |r| < rd.magnitude + rd.ulp := by
  obtain ⟨rd, h1, h2, h3⟩ := C08_mark_iff spec r hl he hc
  obtain ⟨rd', h1', h4, h5, _, _⟩ := C08_faithful_unfolded spec r hl he hc
  have hrd : rd' = rd := by rw [h1] at h1'; exact (Option.some.inj h1').symm
  subst hrd
  exact ⟨rd', h1, lt_of_le_of_ne h4 (h3.mp hmark), h5⟩

/-- **`limit = 0`, big and whole paths** (`r = 0` or `|r| ≥ 1`): still faithful; the
text is the integer part (or its leading digit with an exponent) and the mark. -/
theorem C08_limit_zero_faithful (spec : Display.Spec) (r : Rat)
    (he : 1 ≤ spec.exponentLimit) (hc : spec.showContinuation = true)
    (hr : r = 0 ∨ 1 ≤ |r|) :
    ∃ rd, readBack (fmt spec r) = some rd ∧ faithful r rd = true := by
  have h : 1 ≤ spec.limit ∨ r.den ≤ r.num.natAbs ∨ r.num = 0 := by
    rcases hr with h | h
    · exact Or.inr (Or.inr (Rat.num_eq_zero.mpr h))
    · exact Or.inr (Or.inl ((one_le_abs_iff r).mp h))
  obtain ⟨rd, h1, h2, _⟩ := good_faithful r _ (fmt_good spec hc he r h)
  exact ⟨rd, h1, h2⟩

/-- **`limit = 0`, small path** (`0 < |r| < 1`): the model (like the Rust code) prints
`…e-1` whatever the value, which is not a decimal at all. The property's quantifier
(`limit` from 1) excludes this case; it is recorded here as a finding. -/
theorem C08_limit_zero_small_unreadable (spec : Display.Spec) (r : Rat)
    (he : 1 ≤ spec.exponentLimit) (hc : spec.showContinuation = true) (hl : spec.limit = 0)
    (h0 : r ≠ 0) (h1 : |r| < 1) :
    fmt spec r = ['…', 'e', '-', '1'] ∧ readBack (fmt spec r) = none := by
  have h := fmt_small_limit_zero spec hc he hl r h0 h1
  rw [h]
  exact ⟨rfl, by decide⟩

/-! ## Non-vacuity: the hypotheses are satisfiable and every path is exercised -/

/-- The default specification satisfies the hypotheses. -/
example : 1 ≤ ({} : Display.Spec).limit ∧ 1 ≤ ({} : Display.Spec).exponentLimit ∧
    ({} : Display.Spec).showContinuation = true := by decide

/-- Small path, plain layout, digits cut off: `1/8` at two digits is `0.12…`. -/
example : fmt { limit := 2, exponentLimit := 3 } (mkRat 1 8) = ['0', '.', '1', '2', '…'] := by
  decide +kernel

/-- Small path, exponent layout: `-1/300` at two digits, threshold 1 is `-3.3…e-3`. -/
example : fmt { limit := 2, exponentLimit := 1 } (mkRat (-1) 300) =
    ['-', '3', '.', '3', '…', 'e', '-', '3'] := by
  decide +kernel

/-- Whole path, nothing cut off: `5/4` is `1.25` and has no mark. -/
example : fmt {} (mkRat 5 4) = ['1', '.', '2', '5'] ∧ '…' ∉ fmt {} (mkRat 5 4) := by
  decide +kernel

/-- Big path, whole digits cut off: `1234567/1000` at 2/3 is `1.23…e3`. -/
example : fmt { limit := 2, exponentLimit := 3 } (mkRat 1234567 1000) =
    ['1', '.', '2', '3', '…', 'e', '3'] := by
  decide +kernel

/-- Big path, only zeros cut off: `100000` at 2/3 is `1.00e5` without a mark. -/
example : fmt { limit := 2, exponentLimit := 3 } (mkRat 100000 1) =
    ['1', '.', '0', '0', 'e', '5'] := by
  decide +kernel

/-- The reader and `faithful` are not trivially true: a text with a digit dropped
silently is rejected. -/
example : (readBack ['0', '.', '1', '2']).map (faithful (mkRat 1 8)) = some false := by
  decide +kernel

/-- …and the correct text is accepted. -/
example : (readBack ['0', '.', '1', '2', '…']).map (faithful (mkRat 1 8)) = some true := by
  decide +kernel

/-- The `limit = 0` finding is about a real case: `1/3` with no digit budget. -/
example : fmt { limit := 0 } (mkRat 1 3) = ['…', 'e', '-', '1'] := by
  decide +kernel


/-- **C08 (the default display specification of the source is the model's).** -/
theorem C08_default_spec :
    ({} : Display.Spec).limit = Anything.Generated.Knobs.defaultLimit ∧
    ({} : Display.Spec).exponentLimit = Anything.Generated.Knobs.defaultExponentLimit ∧
    ({} : Display.Spec).showContinuation = Anything.Generated.Knobs.defaultShowContinuation := by decide

end Anything.Props.C08
