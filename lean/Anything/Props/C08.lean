import Anything.Model.Display
import Anything.Spec.Printed
namespace Anything.Props.C08
theorem C08_placeholder : True := trivial
end Anything.Props.C08
