import Anything.Model.Cli
import Anything.Spec.Words
namespace Anything.Props.C11
theorem C11_placeholder : True := trivial
end Anything.Props.C11
