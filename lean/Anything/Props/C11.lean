import Anything.Model.Cli
import Anything.Props.C12
import Anything.Lemmas.EvalSat
import Anything.Lemmas.EvalSpans
import Anything.Lemmas.EvalRound

namespace Anything.Props.C11
open Anything Anything.Eval

/-- **C11 (parsing never fails).** -/
theorem C11_parse_total (src : List Char) : ∃ forest, Grammar.parseRoot src = .ok forest :=
  C12.C12_parse_total (Lexer.lex src)

/-- **C11 (the rounding assertion is unreachable).** -/
theorem C11_round_no_assert (cfg : Cfg) (s e : Nat) (args : List Numeric) (d : List Desc)
    (site : String) : (builtinRound cfg s e args d).1 ≠ .error (.panic site) := by
  rcases builtinRound_cases cfg s e args d with ⟨k, h⟩ | ⟨v, h, -⟩ <;> rw [h] <;> intro hh <;> cases hh

def NotFuel : EvalErr → Prop
  | .panic site => site ≠ "fuel"
  | _ => True

theorem ctx_fuel (cfg : Cfg) : Ctx cfg NotFuel (fun _ => True) (fun _ => True) (fun _ => True) where
  kids := fun _ _ _ _ => trivial
  perr := fun _ _ _ => trivial
  unsup := fun _ => trivial
  unil := trivial
  upow := fun _ _ _ => trivial
  kparse := fun _ _ _ _ _ => trivial
  uupd := fun _ _ _ _ _ _ _ _ => trivial
  udb := fun _ _ _ => trivial
  umul := by
    intro x y div l r _ _
    split
    · trivial
    · trivial
    · show _ ≠ _
      decide
  round := fun a args _ _ => sat_round cfg _ _ args (fun _ => trivial) (fun _ _ => trivial)

theorem C11_no_fuel_panic (cfg : Cfg) (fuel : Nat) (a : At) (d : List Desc)
    (h : 2 * Eval.size a.t + 2 ≤ fuel) : (eval cfg fuel a d).1 ≠ .error (.panic "fuel") := by
  intro hh
  exact (sat_eval (ctx_fuel cfg) fuel a trivial (by omega) d).1 _ hh rfl

end Anything.Props.C11
