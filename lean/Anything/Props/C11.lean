import Anything.Model.Cli
import Anything.Props.C12
import Anything.Lemmas.EvalCtx
import Anything.Lemmas.EvalFuel
/-!
# C11 — any input yields values or located errors, never a crash

The model of the whole pipeline is `Eval.query cfg src`: `Grammar.parseRoot src`, then
`queryLoop` runs `eval` on every root child that is not white space. The model makes every
way of crashing an explicit outcome:

* the parser's `BErr` (builder misuse, the model's own parser fuel) — `C11_parse_total`
  (from C12) shows it never happens, so `query` always returns a list of results
  (`C11_query_total`);
* `EvalErr.panic "fuel"`, the model's own recursion fuel — `C11_no_fuel_panic` shows that
  `2 * size` fuel is enough for every tree whatsoever (`queryLoop` passes `2 * size + 2`): the
  recursion only descends into children and along operator chains, both counted by `size`
  (`Lemmas/EvalSat.lean`, `sat_all`), and `C11_fuel_irrelevant` that more fuel never changes
  a result;
* `EvalErr.panic "round debug_assert"` — `C11_round_no_assert`: unreachable for ALL arguments,
  because the value returned for a digit count `n ≤ 0` is an integer (C10);
* `EvalErr.panic "Compound::new zero power"` — `C11_mul_no_assert`: `Compound::mul` never
  leaves an entry with power zero when the units involved are units of the table
  (`Lemmas/MulZero.lean`); `C11_mul_assert_needs_known` shows the hypothesis is needed.

`C11_spans` locates every error: its byte range is ordered, lies inside the input and both
ends are token boundaries of the input, hence character boundaries (`C11_boundary_char`), so
the diagnostic renderer can always slice and underline it. `C11_no_panic` and `C11_results`
put everything together.

**Bounds.** The informal property bounds the input ("up to 40 tokens, exponents up to 3
digits, powers up to 2 digits"). That bound is about resources — `i32` overflow of unit
powers and prefixes, and running time / memory of huge powers — which the model's unbounded
`Int` and `Rat` do not exhibit (`Model/Compound.lean` says so); the theorems below therefore
hold for ALL inputs and no hypothesis is invented for the bound. The differential harness
keeps its generators inside the bound.

**Database.** The evaluator is parameterised by the constants database `cfg.db`. In a
build with debug assertions the zero-power assertion is discharged by tracking that every
unit that occurs is a unit of the table, so `C11_no_panic` assumes this of the constants the
database returns (`DbKnown`); in a release build (`cfg.debug = false`) nothing is assumed.
`sin`/`cos` go through `f64` and are outside the model (`EvalErr.unsupported`).
-/

namespace Anything.Props.C11
open Anything Anything.Eval

/-! ## Parsing -/

/-- **C11 (parsing never fails).** Every source string parses to a forest (corollary of
`C12_parse_total`): neither a builder error nor the parser's fuel. -/
theorem C11_parse_total (src : List Char) : ∃ forest, Grammar.parseRoot src = .ok forest :=
  C12.C12_parse_total (Lexer.lex src)

/-- **C11 (a result list always exists).** -/
theorem C11_query_total (cfg : Cfg) (src : List Char) :
    ∃ res log, Eval.query cfg src = .ok (res, log) := by
  obtain ⟨forest, h⟩ := C11_parse_total src
  exact ⟨(queryLoop cfg (kidsAt 0 forest) []).1, (queryLoop cfg (kidsAt 0 forest) []).2,
    by simp only [Eval.query, h]⟩

/-! ## The rounding assertion -/

/-- **C11 (the rounding assertion is unreachable).** `builtinRound` never panics, whatever
the arguments, the span and the build: `debug_assert!(n > 0 || value.denom() == 1)` holds for
the value it is about to return. -/
theorem C11_round_no_assert (cfg : Cfg) (s e : Nat) (args : List Numeric) (d : List Desc)
    (site : String) : (builtinRound cfg s e args d).1 ≠ .error (.panic site) := by
  rcases builtinRound_cases cfg s e args d with ⟨k, h⟩ | ⟨v, h, -⟩ <;> rw [h] <;> intro hh <;>
    cases hh

/-- Non-vacuity: the assertion is really evaluated on this path (debug build, two
arguments, negative digit count, non-integer first argument) and the result is a value. -/
example : ((builtinRound { db := fun _ => .nothing } 0 0
    [{ value := 12345 / 10, unit := [] }, { value := -2, unit := [] }] []).1.toOption.map
      (fun v => v.value)) = some 1200 := by
  decide +kernel

/-! ## The model's fuel -/

/-- **C11 (the evaluator's fuel never runs out).** For every tree, located anywhere, every
configuration and every description log: with the fuel `queryLoop` passes (or more) the
outcome is not the model's `"fuel"` panic. (`2 * size` already suffices.) -/
theorem C11_no_fuel_panic (cfg : Cfg) (fuel : Nat) (a : At) (d : List Desc)
    (h : 2 * Eval.size a.t + 2 ≤ fuel) : (eval cfg fuel a d).1 ≠ .error (.panic "fuel") := by
  intro hh
  exact (sat_eval (ctx_fuel cfg) fuel a trivial (by omega) d).1 _ hh rfl

/-- **C11 (fuel is immaterial).** With the fuel `queryLoop` passes, or any larger amount,
`eval` computes exactly what it computes with `2 * size` fuel: the fuel is only a device to
make the recursion structural and never influences a result. -/
theorem C11_fuel_irrelevant (cfg : Cfg) (fuel : Nat) (a : At)
    (h : 2 * Eval.size a.t + 2 ≤ fuel) : eval cfg fuel a = eval cfg (2 * Eval.size a.t) a :=
  eval_fuel_irrelevant cfg fuel a (by omega)

/-- The hypothesis of `C11_no_fuel_panic` cannot simply be dropped: with too little fuel the
model does report `"fuel"` (here: a parenthesised number evaluated with fuel 1). -/
example : (eval { db := fun _ => .nothing } 1
    ⟨0, .node 0 .OPERATION [.node 1 .NUMBER [.tok 2 .NUMBER ['1']]]⟩ []).1.toOption.isNone
    = true := by
  decide +kernel

/-! ## Spans -/

/-- `n` is the byte offset of a token boundary of `src`: the total UTF-8 length of the first
`k` tokens. -/
def C11_Boundary (src : List Char) (n : Nat) : Prop :=
  ∃ k, k ≤ (Lexer.lex src).length ∧ n = (((Lexer.lex src).take k).map Token.len).sum

/-- **C11 (token boundaries are character boundaries).** A token boundary is the UTF-8
length of a prefix of the input's character sequence, so slicing the input there is legal. -/
theorem C11_boundary_char (src : List Char) (n : Nat) (h : C11_Boundary src n) :
    ∃ p, p <+: src ∧ n = utf8Len p := by
  have := boundary_prefix (toks := Lexer.lex src) (n := n) h
  rwa [C12.C12_cover] at this

/-- **C11 (errors are located).** Every error `.err k s e` among the results of a query has
an ordered byte range inside the input whose ends are token boundaries: it is the span of a
node of the parsed forest, whose text is the input (C12). No assumption on the database or
the build. -/
theorem C11_spans (cfg : Cfg) (src : List Char) (res : List (Except EvalErr Numeric))
    (log : List Desc) (h : Eval.query cfg src = .ok (res, log)) (k : ErrKind) (s e : Nat)
    (hr : .error (.err k s e) ∈ res) :
    s ≤ e ∧ e ≤ utf8Len src ∧ C11_Boundary src s ∧ C11_Boundary src e := by
  unfold Eval.query at h
  split at h
  · cases h
  · rename_i forest hp
    simp only [Except.ok.injEq] at h
    have hres : res = (queryLoop cfg (kidsAt 0 forest) []).1 := by rw [h]
    rw [hres] at hr
    have hloc := loc_root (C12.C12_parse_leaves src forest hp)
    have hsat := sat_queryLoop (ctx_main cfg (Lexer.lex src) False (fun hf => hf.elim))
      (kidsAt 0 forest) [] hloc _ hr
    obtain ⟨h1, h2, h3, h4⟩ : Span (Lexer.lex src) s e := hsat.1 _ rfl
    refine ⟨h1, ?_, h3, h4⟩
    rw [← C12.C12_bytes src]
    exact h2

/-- The byte range of an error result. -/
def C11_spanOf : Except EvalErr Numeric → Option (Nat × Nat)
  | .error (.err _ s e) => some (s, e)
  | _ => none

/-- Non-vacuity of `C11_spans`: a query with multi-byte characters whose only result is an
error (`°q` is not in the database) located at bytes 8‥11 — after `2 °C + ` (8 bytes, 7
characters) and at the end of the input (11 bytes, 9 characters). -/
example : (Eval.query { db := fun _ => .nothing } "2 °C + °q".toList).toOption.map
    (fun r => r.1.map C11_spanOf) = some [some (8, 11)] := by
  decide +kernel

/-! ## The zero-power assertion of `Compound::mul` -/

/-- Table fact: no derived unit of the table is dimensionless. -/
theorem C11_table_no_dimensionless : ∀ d ∈ Generated.units, d.dims ≠ [] := by
  decide +kernel

/-- **C11 (`Compound::mul` never trips `Compound::new`'s assertion).** For compounds made of
units of the table (`AllKnown`), any non-zero power `n` applied to the right operand
(`1` for `*`, `-1` for `/`), any values and either build, the outcome is not `zeroPower`:
`reconstruct` never leaves an entry with power zero. Base entries only move toward zero and
are erased there; a derived unit is bumped twice only with the same sign
(`Lemmas/MulZero.lean`). The operands may even contain zero-power entries. -/
theorem C11_mul_no_assert (debug : Bool) (a b : Compound) (n : Int) (l r : Rat) (hn : n ≠ 0)
    (ha : AllKnown a) (hb : AllKnown b) : Compound.mul debug a b n l r ≠ .error .zeroPower :=
  mul_no_zeroPower debug a b n l r hn (allKnown_hasBases ha) (allKnown_hasBases hb)

/-- Is the outcome the zero-power assertion? -/
def C11_isZeroPower {α : Type} : Except CErr α → Bool
  | .error .zeroPower => true
  | _ => false

/-- The hypothesis of `C11_mul_no_assert` is needed: a derived key that is not in the table
has no base dimensions, `bases_match` then accepts any count, and `x / x` leaves the entry
with power zero. (Such keys cannot be written by a user: `Lemmas/KnownUnits.lean`,
`parse_known`.) -/
theorem C11_mul_assert_needs_known :
    C11_isZeroPower (Compound.mul true [(.derived 0, ⟨1, 0⟩)] [(.derived 0, ⟨1, 0⟩)] (-1) 1 1)
      = true := by
  decide +kernel

/-- Non-vacuity of `C11_mul_no_assert`: `N / N` (newton is `kg⋅m/s²` in the table) runs
through `reconstruct` twice with opposite signs and ends with the empty unit. -/
example : AllKnown [(.derived 353022001, ⟨1, 0⟩)] ∧
    ((Compound.mul true [(.derived 353022001, ⟨1, 0⟩)] [(.derived 353022001, ⟨1, 0⟩)] (-1) 1 1
      ).toOption.map (fun r => r.1)) = some [] := by
  refine ⟨?_, by decide +kernel⟩
  intro e he
  simp only [List.mem_singleton] at he
  subst he
  decide +kernel

/-! ## No panic at all

`DbKnown db` (`Lemmas/EvalCtx.lean`): every constant the database returns has a unit made of
base units and derived units of the table. In the Rust program this is an invariant of the
type `Derived` (a reference to a static table entry; deserialisation goes through
`id_to_derived` and rejects unknown ids), and units written as text only ever name table
units (`C11_fromStr_known`). -/

/-- **C11 (units written as text are units of the table).** `impl FromStr for Compound`
(how constants files spell units) only produces known units. -/
theorem C11_fromStr_known (src : List Char) (c : Compound)
    (h : Eval.compoundFromStr src = .ok (.ok c)) : AllKnown c := by
  unfold Eval.compoundFromStr at h
  split at h
  · cases h
  · split at h
    · simp only [Except.ok.injEq] at h
      exact unit_known _ _ _ h
    · split at h
      · simp only [Except.ok.injEq] at h
        exact unit_known _ _ _ h
      · simp only [Except.ok.injEq] at h
        cases h

/-- **C11 (no panic).** No result of a query is a panic: in a release build for every
database, in a debug build for every database whose constants carry units of the table.
Together with `C11_query_total` and `C11_spans` this is the property for the model. -/
theorem C11_no_panic (cfg : Cfg) (src : List Char)
    (hdb : cfg.debug = false ∨ DbKnown cfg.db)
    (res : List (Except EvalErr Numeric)) (log : List Desc)
    (h : Eval.query cfg src = .ok (res, log)) (site : String) :
    .error (.panic site) ∉ res := by
  intro hr
  unfold Eval.query at h
  split at h
  · cases h
  · rename_i forest hp
    simp only [Except.ok.injEq] at h
    have hres : res = (queryLoop cfg (kidsAt 0 forest) []).1 := by rw [h]
    rw [hres] at hr
    have hloc := loc_root (C12.C12_parse_leaves src forest hp)
    have hctx := ctx_main cfg (Lexer.lex src) True (fun _ hd => by
      rcases hdb with h | h
      · rw [h] at hd; cases hd
      · exact h)
    exact (sat_queryLoop hctx (kidsAt 0 forest) [] hloc _ hr).1 _ rfl trivial

/-- A small database for the non-vacuity examples: the speed of light in `m/s` and a
force in newton (a derived unit of the table). -/
def C11_sampleDb : Db := fun s =>
  if s = ['c'] then
    .found { value := 299792458, unit := [(.base .Meter, ⟨1, 0⟩), (.base .Second, ⟨-1, 0⟩)],
             description := [] }
  else if s = ['f'] then
    .found { value := 2, unit := [(.derived 353022001, ⟨1, 0⟩)], description := [] }
  else .nothing

/-- Non-vacuity of `C11_no_panic` in a debug build: the sample database satisfies `DbKnown`,
and `f / 1N * c` divides newton by newton (both `reconstruct` paths, opposite signs) and
yields a value in `m/s`. -/
example : DbKnown C11_sampleDb ∧
    ((Eval.query { db := C11_sampleDb, debug := true } "f / 1N * c".toList).toOption.map
      (fun r => r.1.map (fun x => x.toOption.map (fun v => (v.value, v.unit.length))))
      = some [some (599584916, 2)]) := by
  refine ⟨?_, by decide +kernel⟩
  intro s c h
  unfold C11_sampleDb at h
  split at h
  · cases h
    intro e he
    simp only [List.mem_cons, List.not_mem_nil, or_false] at he
    rcases he with rfl | rfl <;> rfl
  · split at h
    · cases h
      intro e he
      simp only [List.mem_singleton] at he
      subst he
      decide +kernel
    · cases h

/-- **C11 (the property for the model).** Every input yields a list of results, each of
which is a value, or an error with a kind and a byte range inside the input on character
boundaries, or the `unsupported` marker of `sin`/`cos` (outside the model). -/
theorem C11_results (cfg : Cfg) (src : List Char) (hdb : cfg.debug = false ∨ DbKnown cfg.db) :
    ∃ res log, Eval.query cfg src = .ok (res, log) ∧ ∀ r ∈ res,
      (∃ v, r = .ok v) ∨
      (∃ k s e, r = .error (.err k s e) ∧ s ≤ e ∧ e ≤ utf8Len src ∧
        (∃ p, p <+: src ∧ s = utf8Len p) ∧ (∃ p, p <+: src ∧ e = utf8Len p)) ∨
      (∃ w, r = .error (.unsupported w)) := by
  obtain ⟨res, log, h⟩ := C11_query_total cfg src
  refine ⟨res, log, h, fun r hr => ?_⟩
  match r, hr with
  | .ok v, _ => exact Or.inl ⟨v, rfl⟩
  | .error (.err k s e), hr =>
    obtain ⟨h1, h2, h3, h4⟩ := C11_spans cfg src res log h k s e hr
    exact Or.inr (Or.inl ⟨k, s, e, rfl, h1, h2, C11_boundary_char src s h3,
      C11_boundary_char src e h4⟩)
  | .error (.panic site), hr => exact absurd hr (C11_no_panic cfg src hdb res log h site)
  | .error (.unsupported w), _ => exact Or.inr (Or.inr ⟨w, rfl⟩)

/-- **C11 (what the binary prints).** The result loop of the CLI turns every result into a
printed line or a diagnostic; it never has to report a panic. -/
theorem C11_render (cfg : Cfg) (src : List Char) (hdb : cfg.debug = false ∨ DbKnown cfg.db)
    (res : List (Except EvalErr Numeric)) (log : List Desc)
    (h : Eval.query cfg src = .ok (res, log)) (exact : Bool) :
    ∀ item ∈ Cli.render exact res, (∃ t, item = .line t) ∨ (∃ k s e, item = .diagnostic k s e) ∨
      (∃ w : String, item = .other s!"unsupported {w}") := by
  intro item hi
  simp only [Cli.render, List.mem_map] at hi
  obtain ⟨r, hr, rfl⟩ := hi
  match r, hr with
  | .ok v, _ => exact Or.inl ⟨_, rfl⟩
  | .error (.err k s e), _ => exact Or.inr (Or.inl ⟨k, s, e, rfl⟩)
  | .error (.panic site), hr => exact absurd hr (C11_no_panic cfg src hdb res log h site)
  | .error (.unsupported w), _ => exact Or.inr (Or.inr ⟨w, rfl⟩)

end Anything.Props.C11
