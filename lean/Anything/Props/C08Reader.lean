import Anything.Lemmas.C08Reader
import Anything.Props.C08
/-!
# C08 (reader tie) — printed text fed back to the tool's own number reader

`Props/C08` ties the printer model `Display.fmt` to the SPECIFICATION's reader
`readBack`. Here the printed text is fed to the model of the tool's own reader,
`Anything.Number.fromStr` (`str::parse::<Rational>`).

Every shape the printer emits without the continuation mark (`-d`, `d.ddd`,
`d.ddde5`, `de-7`, `0.00ddd`) is accepted by the reader and read exactly. The only
boundary is the reader's two `u32` counters (number of fraction digits, value of
the exponent): a text such as `1e4294967296` is what the printer produces for
`10 ^ 4294967296`, and the reader refuses it (`C08_reader_rejects_huge_exponent`).
So the unrestricted statement `C08_reader_full_statement` is false for
astronomically large inputs only; `C08_reader_roundtrip_partial` proves it under
the hypothesis that the printed text has at most `u32::MAX` fraction digits and an
exponent of magnitude at most `u32::MAX` — for every rational and every display
specification with positive budgets otherwise.
-/

namespace Anything.Props.C08
open Anything Anything.Display Anything.Spec.Printed Anything.Lemmas.Printed

/-- The full statement (no size hypothesis). NOT provable: the reader keeps the
exponent and the fraction-digit count in `u32` with overflow checks, the printer
does not, so e.g. `10 ^ 4294967296` prints as `1.000000e4294967296`, which the
reader refuses. What is missing in `C08_reader_roundtrip_partial` is exactly the
hypothesis `hfit`. -/
def C08_reader_full_statement : Prop :=
  ∀ (spec : Display.Spec) (r : Rat), 1 ≤ spec.limit → 1 ≤ spec.exponentLimit →
    spec.showContinuation = true → '…' ∉ Display.fmt spec r →
    Anything.Number.fromStr (Display.fmt spec r) = some r

/-- The printed text fits the reader's counters: at most `u32::MAX` fraction
digits and an exponent of magnitude at most `u32::MAX`. -/
def ReaderFits (text : List Char) : Prop :=
  ∀ rd, readBack text = some rd →
    rd.fracDigits.length ≤ Anything.Number.u32Max ∧ rd.exp.natAbs ≤ Anything.Number.u32Max

/-- **C08, reader round trip.** Text printed without the continuation mark, fed to
the tool's own reader, gives back exactly the value that was printed — for every
rational and every display specification with positive budgets, as long as the two
`u32` counters of the reader are not overflowed by the text. -/
theorem C08_reader_roundtrip_partial (spec : Display.Spec) (r : Rat) (hl : 1 ≤ spec.limit)
    (he : 1 ≤ spec.exponentLimit) (hc : spec.showContinuation = true)
    (hno : '…' ∉ Display.fmt spec r) (hfit : ReaderFits (Display.fmt spec r)) :
    Anything.Number.fromStr (Display.fmt spec r) = some r := by
  obtain ⟨rd, h1, h2⟩ := Anything.Lemmas.C08Reader.fromStr_good _ _ _ _
    (fmt_good spec hc he r (Or.inl hl)) hno hfit
  obtain ⟨rd', h1', h3⟩ := C08_no_mark_exact spec r hl he hc hno
  have hrd : rd' = rd := by rw [h1] at h1'; exact (Option.some.inj h1').symm
  subst hrd
  rw [h2, ← h3]
  rfl

/-- The two readers agree on every mark-free printed text that fits the counters:
the tool's reader returns the signed value of the specification's reading. -/
theorem C08_reader_agrees_with_spec (spec : Display.Spec) (r : Rat) (hl : 1 ≤ spec.limit)
    (he : 1 ≤ spec.exponentLimit) (hc : spec.showContinuation = true)
    (hno : '…' ∉ Display.fmt spec r) (hfit : ReaderFits (Display.fmt spec r)) :
    Anything.Number.fromStr (Display.fmt spec r) = (readBack (Display.fmt spec r)).map signedValue := by
  obtain ⟨rd, h1, h3⟩ := C08_no_mark_exact spec r hl he hc hno
  rw [C08_reader_roundtrip_partial spec r hl he hc hno hfit, h1, Option.map_some, h3]

/-- **The boundary, pinned on the reader's side**: a text of the printer's shape with
exponent `u32::MAX + 1` (either sign) is refused by the tool's reader. -/
theorem C08_reader_rejects_huge_exponent :
    Anything.Number.fromStr ['1', 'e', '4', '2', '9', '4', '9', '6', '7', '2', '9', '6'] = none ∧
    (Anything.Number.fromStr ['1', 'e', '-', '4', '2', '9', '4', '9', '6', '7', '2', '9', '6']) = none := by
  constructor <;> rfl

/-! ## Non-vacuity -/

/-- Whole path: `5/4` with the default specification prints `1.25`, no mark, fits. -/
example : 1 ≤ ({} : Display.Spec).limit ∧ 1 ≤ ({} : Display.Spec).exponentLimit ∧
    ({} : Display.Spec).showContinuation = true ∧ '…' ∉ fmt {} (mkRat 5 4) ∧
    fmt {} (mkRat 5 4) = ['1', '.', '2', '5'] := by
  decide +kernel

example : ReaderFits (fmt {} (mkRat 5 4)) := by
  have h : fmt {} (mkRat 5 4) = ['1', '.', '2', '5'] := by decide +kernel
  intro rd hrd
  rw [h] at hrd
  have : readBack ['1', '.', '2', '5'] =
      some { neg := false, intDigits := [1], fracDigits := [2, 5], mark := false, exp := 0 } := by
    rfl
  rw [this] at hrd
  cases hrd
  decide

/-- Big path with an exponent and no mark: `100000` at 2/3 prints `1.00e5`. -/
example : '…' ∉ fmt { limit := 2, exponentLimit := 3 } (mkRat 100000 1) ∧
    fmt { limit := 2, exponentLimit := 3 } (mkRat 100000 1) = ['1', '.', '0', '0', 'e', '5'] := by
  decide +kernel

example : ReaderFits (fmt { limit := 2, exponentLimit := 3 } (mkRat 100000 1)) ∧
    Anything.Number.fromStr (fmt { limit := 2, exponentLimit := 3 } (mkRat 100000 1)) =
      some (mkRat 100000 1) := by
  have h : fmt { limit := 2, exponentLimit := 3 } (mkRat 100000 1) = ['1', '.', '0', '0', 'e', '5'] := by
    decide +kernel
  have hfit : ReaderFits (fmt { limit := 2, exponentLimit := 3 } (mkRat 100000 1)) := by
    intro rd hrd
    rw [h] at hrd
    have : readBack ['1', '.', '0', '0', 'e', '5'] =
        some { neg := false, intDigits := [1], fracDigits := [0, 0], mark := false, exp := 5 } := by
      rfl
    rw [this] at hrd
    cases hrd
    decide
  exact ⟨hfit, C08_reader_roundtrip_partial _ _ (by decide) (by decide) rfl (by rw [h]; decide) hfit⟩

/-- Small path with a negative exponent and no mark: `-3/1000` at threshold 1 prints `-3e-3`. -/
example : '…' ∉ fmt { limit := 2, exponentLimit := 1 } (mkRat (-3) 1000) ∧
    fmt { limit := 2, exponentLimit := 1 } (mkRat (-3) 1000) = ['-', '3', 'e', '-', '3'] := by
  decide +kernel

end Anything.Props.C08

