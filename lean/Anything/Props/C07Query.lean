import Anything.Props.C06
/-!
# C07, end to end — a literal written as a query denotes the number it spells

`Props/C07.lean` proves the library's number reader exact. Here the same literal is given
to the whole pipeline as a QUERY (lexer: the literal is one NUMBER token, followed by a
PERCENTAGE suffix when it ends in `%`; parser; evaluator): the single result is exactly
`Spec.Decimal.value l` — the value the reader theorem speaks about — with blanks allowed
at either end, for every well-formed literal within the reader's `u32` guards.
-/

namespace Anything.Props.C07
open Anything Anything.Eval Anything.Spec Anything.Spec.Arith Anything.Spec.Decimal Anything.C06 Anything.Props.C06

/-- **C07 (the literal as a query).** -/
theorem C07_query (cfg : Cfg) (l : Literal) (ws : Layout) (h : LitOK l)
    (hl : QueryLayoutOK (.lit l) ws) :
    Eval.query cfg (renderQuery (.lit l) ws) = .ok ([.ok { value := Decimal.value l, unit := [] }], []) :=
  C06_query_ok cfg (.lit l) ws (Decimal.value l) h.1 hl h trivial rfl

/-- The hypotheses are satisfiable: the default layout is admissible for every literal. -/
theorem C07_query_default_layout (l : Literal) (h : l.WF) : QueryLayoutOK (.lit l) [] :=
  C06_default_layout_ok (.lit l) h

end Anything.Props.C07
