import Anything.Lemmas.FQQuery
import Anything.Lemmas.FQShipped
/-!
# Fact phrases END TO END (C16, C18 at the level of whole queries)

`Props/C16` proves by a kernel run over the shipped table that the query made of a shipped
constant's words performs one lookup of that phrase; `Props/C18` proves the describe / isolation
theorems for all TREES. Here the same facts are proved for query TEXT, for ALL phrases and for ALL
expressions mixing number literals (also `50 %`) and fact phrases with `+ - * / ^` and
parentheses: the whole
pipeline `Eval.query` (lexer, parser, evaluator) applied to the text answers the denotation
computed from the looked-up constants and reports exactly the lookups, in evaluation order.
The proofs live in `Lemmas/FQ*.lean` and reuse the infrastructure of `Props/C06`
(`Lexes`, `Tot`, the `opLoop` stack invariant, fuel handling).

* **Stage 1 — one phrase**: `FQ_lex_phrase`, `FQ_value_phrase`, `FQ_parse_phrase`, `C16_phrase`,
  `C16_phrase_shipped`, `C16_phrase_permuted`.
* **Stage 2 — flat**: `C18_query_flat` (`phrase op literal`, `literal op phrase`,
  `phrase op phrase`).
* **Stage 3 — arbitrary nesting**: `FQ_lex_render`, `FQ_parse_render`, `FQ_eval_rep`,
  `C18_query_mixed`, `C18_query_mixed_same_value`, `C18_query_mixed_log`, `C18_query_mixed_plain`,
  `C18_query_isolated`, `C18_query_isolated_log`, `C18_query_isolated_perm`,
  `C18_query_isolated_mixed`.

Definitions (`Lemmas/FQDefs.lean`): `PhraseOK`, `phraseText`, `phraseToks`; `FExpr`, `render`,
`renderQuery`, `toksF`, `WFF`, `LayoutOKF`; `RepF`; the denotation `evalD` with its value part
`denote` and log part `logD`, `order`, `strip`; histories (`Lemmas/FQQuery.lean`): `queryFrom`,
`runAll`, `logAlone`.
-/

namespace Anything.Props.FactQuery
open Anything Anything.Eval Anything.Lexer Anything.Grammar Anything.Spec
open Anything.Spec.Arith (BinOp Layout nextBlank)
open Anything.Spec.Decimal (Literal value fracDigits)
open Anything.C06 Anything.QQ Anything.FQ

/-! ## Stage 1 — a single phrase -/

/-- **Lexer on a phrase.** For every first word `first` (word characters — letters, digits, `°`,
`'` —, not beginning with a digit, not the keyword `to`: `WordLit`) and every list `more` of
further words, each preceded by a non-empty run of white space and each either such a word or a
number word (`PhraseOK`), the lexer yields, on the phrase followed by any text `rest` that is
empty or starts with a blank, a closing delimiter or an operator, exactly WORD, then WHITESPACE
and WORD / NUMBER alternating (`phraseToks`), followed by the tokens of `rest`. -/
theorem FQ_lex_phrase (first : List Char) (more : More) (rest : List Char)
    (hp : PhraseOK first more) (hs : ExprStop rest) :
    Lexer.lex (phraseText first more ++ rest) = phraseToks first more ++ Lexer.lex rest :=
  lexes_lex (lex_phrase first more rest _ hp (exprStop_stopP hs) (lexes_lex_self rest))

/-- The same for words joined by single blanks: the text is `Index.joinWords`, the phrase C16
asks for. -/
theorem FQ_lex_words (f : List Char) (ws : List (List Char)) (hp : PhraseOK f (singleBlanks ws)) :
    Lexer.lex (Index.joinWords (f :: ws)) = phraseToks f (singleBlanks ws) := by
  have := FQ_lex_phrase f (singleBlanks ws) [] hp (head_nil _)
  rw [phraseText_single] at this
  simpa [Lexer.lex, Lexer.lexFuel] using this

/-- Number words: digit strings, and everything the number scanner consumes completely
(`numWordB`, decidable). -/
theorem FQ_numWord (w : List Char) :
    (w ≠ [] → (∀ c ∈ w, isDigit c = true) → NumWord w) ∧ (numWordB w = true → NumWord w) :=
  ⟨numWord_digits, numWord_of_full⟩

/-- **`Grammar.value` on a phrase — for ALL word lists.** Whatever the words are (no hypothesis on
their characters: only the token kinds matter): on a token buffer that holds, after a blank `W`,
a WORD token, then `(WHITESPACE, WORD-or-NUMBER)` pairs, then — after an optional blank — an
operator, `)`, `,` or the end of the input (`Follow`), `value` skips the blank and appends ONE
tree: a WORD node for a single word, otherwise a SENTENCE node, whose text is exactly the phrase
as typed. (`C06.Good`: the builder invariant; `Pos`: the returned checkpoint points at the tree.)

When does a word NOT start a phrase? Exactly when it is not in operand position or is glued to
`(`: after a number (then `value`'s NUMBER branch reads it as a unit: `2 pi` is a WITH_UNIT
node), after `to` (the right operand of a cast is a unit), or directly followed by `(` (a
function call). See the tests below. -/
theorem FQ_value_phrase {s : PState} (F : Nat) (W : List Token) (first : List Char) (more : More)
    (K : List Token) (ht : s.toks = W ++ (phraseToks first more ++ K)) (hw : AllWS W)
    (hK : Follow K) (h : C06.Good s.b) (hF : more.length + 1 ≤ F) :
    PTotal.Tot (Grammar.value (F + 1) W.length) s (fun r s' => ∃ cur Wt x, r = some cur ∧
      s'.toks = K ∧ s'.b.forest = s.b.forest ++ Wt ++ [x] ∧ WSTrees Wt ∧ Wt.length = W.length ∧
      x.kind = (if more = [] then Syntax.WORD else Syntax.SENTENCE) ∧ x.hasChildren = true ∧
      x.text = phraseText first more ∧
      Pos s'.b cur (s.b.forest.length + W.length) ∧ C06.Good s'.b ∧ NoNext s'.b ∧
      Ext s.b.forest.length s.b s'.b) :=
  value_phrase F W first more K ht hw hK h hF

/-- **Parser on a phrase.** For every phrase that can be typed, with any white space before and
after it, `parseRoot` succeeds and the forest is: blank leaves, ONE tree, blank leaves; the tree
is a WORD node (one word) or a SENTENCE node (several) and its text is exactly the phrase. -/
theorem FQ_parse_phrase (first : List Char) (more : More) (b0 b1 : List Char)
    (hp : PhraseOK first more) (h0 : Blank b0) (h1 : Blank b1) :
    ∃ forest lead x trail, parseRoot (b0 ++ phraseText first more ++ b1) = .ok forest ∧
      forest = lead ++ [x] ++ trail ∧ WSTrees lead ∧ WSTrees trail ∧
      x.kind = (if more = [] then Syntax.WORD else Syntax.SENTENCE) ∧ x.hasChildren = true ∧
      x.text = phraseText first more := by
  obtain ⟨forest, hparse, Wt, x, Wt', hf, hWt, hWt', hx⟩ :=
    parse_renderF (.fact first more) [b0, b1] hp (queryLayout_fact first more b0 b1 h0 h1)
  rw [renderQuery_fact] at hparse
  obtain ⟨hk, hc, ht⟩ := repF_fact_inv hx
  exact ⟨forest, Wt, x, Wt', hparse, hf, hWt, hWt', hk, hc, ht⟩

/-- Tests (labelled as tests): a word after a number is a unit, a word glued to `(` is a function
name, the words after `to` are a unit; in operand position the same word is a phrase. -/
example :
    (parseRoot ['2', ' ', 'p', 'i']).toOption.map (fun f => f.map Tree.kind) = some [.WITH_UNIT] ∧
    (parseRoot ['p', 'i', '(', '2', ')']).toOption.map (fun f => f.map Tree.kind) = some [.FN_CALL] ∧
    (parseRoot ['1', ' ', 't', 'o', ' ', 'p', 'i']).toOption.map
      (fun f => f.map (fun t => t.kids.map Tree.kind)) =
        some [[.NUMBER, .WHITESPACE, .OP_CAST, .WHITESPACE, .UNIT]] ∧
    (parseRoot ['2', ' ', '*', ' ', 'p', 'i']).toOption.map (fun f => f.map Tree.kind) = some [.OPERATION] ∧
    (parseRoot ['s', 'p', 'e', 'e', 'd', ' ', 'o', 'f', ' ', 'l', 'i', 'g', 'h', 't']).toOption.map (fun f => f.map Tree.kind) = some [.SENTENCE] ∧
    (parseRoot ['p', 'i']).toOption.map (fun f => f.map Tree.kind) = some [.WORD] := by
  decide +kernel

/-- What a query consisting of the one phrase `p`, typed after `lead` bytes of white space, must
answer: the database's entry for `p` as a value (reported when describing), or `missing` /
`lookupError` spanning exactly the phrase; nothing else is consulted. -/
def oneLookupAnswer (cfg : Cfg) (p : List Char) (lead : Nat) :
    List (Except EvalErr Numeric) × List Desc :=
  match cfg.db p with
  | .found c => ([.ok { value := c.value, unit := c.unit }],
      if cfg.describe then [{ phrase := p, description := c.description }] else [])
  | .nothing => ([.error (.err .missing lead (lead + utf8Len p))], [])
  | .error => ([.error (.err .lookupError lead (lead + utf8Len p))], [])

/-- **C16 (one lookup, of exactly the phrase — for every phrase and every database).** The query
text made of a phrase that can be typed (any blank runs between the words, any white space
around) performs exactly one lookup, of exactly that phrase as typed: the single result is
`cfg.db phrase` mapped to a value (`found`), `missing` (`nothing`) or `lookupError` (`error`),
the error spanning exactly the bytes of the phrase; with `describe` the log is the one entry
`⟨phrase, description⟩` on success, and nothing is reported otherwise. -/
theorem C16_phrase (cfg : Cfg) (first : List Char) (more : More) (b0 b1 : List Char)
    (hp : PhraseOK first more) (h0 : Blank b0) (h1 : Blank b1) :
    Eval.query cfg (b0 ++ phraseText first more ++ b1) =
      .ok (oneLookupAnswer cfg (phraseText first more) (utf8Len b0)) := by
  rw [query_phrase_exact cfg first more b0 b1 hp h0 h1]
  unfold oneLookupAnswer
  cases cfg.db (phraseText first more) <;> rfl

/-- **C16 (every shipped constant in scope, against ANY database).** `C16_one_lookup` checks one
particular database per constant by running the model; here: for every shipped constant whose
words can be typed (`Index.typeable`) and EVERY database and `describe` flag, the query made of
its words performs exactly one lookup, of exactly `phraseOf r` — in particular with the real
index as database the answer is whatever that index returns for the phrase, fully decoded
(value, unit, description) when it is `found`. -/
theorem C16_phrase_shipped (cfg : Cfg) (r : Generated.FactRow) (hr : r ∈ Generated.facts)
    (ht : Index.typeable r = true) :
    Eval.query cfg (Index.phraseOf r) = .ok (oneLookupAnswer cfg (Index.phraseOf r) 0) := by
  obtain ⟨f, rest, _, hp, htxt⟩ := shipped_phraseOK r hr ht
  have := C16_phrase cfg f (singleBlanks rest) [] [] hp (fun _ h => nomatch h) (fun _ h => nomatch h)
  simpa only [htxt, List.nil_append, List.append_nil, utf8Len] using this

/-- **C16 (with the words permuted).** The words of a shipped constant in scope, typed in any
order `ws`, are again one phrase: one lookup of exactly `joinWords ws` (whose index terms are
those of the constant, `C16_query_terms_perm`). -/
theorem C16_phrase_permuted (cfg : Cfg) (r : Generated.FactRow) (hr : r ∈ Generated.facts)
    (ht : Index.typeable r = true) (ws : List (List Char)) (hperm : ws.Perm r.tokens) :
    Eval.query cfg (Index.joinWords ws) = .ok (oneLookupAnswer cfg (Index.joinWords ws) 0) := by
  obtain ⟨f, rest, _, hp, htxt⟩ := shipped_perm_phraseOK r hr ht ws hperm
  have := C16_phrase cfg f (singleBlanks rest) [] [] hp (fun _ h => nomatch h) (fun _ h => nomatch h)
  simpa only [htxt, List.nil_append, List.append_nil, utf8Len] using this

/-- The scope of the two theorems above, in numbers (as `C16_scope`): 777 of the 878 shipped
constants. -/
theorem C16_phrase_scope : (Generated.facts.filter Index.typeable).length = 777 := by
  decide +kernel

/-- Non-vacuity of stage 1: the first shipped constant is in scope; `mercury  orbit 2` (two
blanks, a number word) is a phrase that can be typed. -/
example : ∃ r ∈ Generated.facts, Index.typeable r = true :=
  ⟨Generated.facts[0]'(by decide +kernel), List.getElem_mem _, by decide +kernel⟩

example : PhraseOK ['m', 'e', 'r', 'c', 'u', 'r', 'y'] [([' ', ' '], ['o', 'r', 'b', 'i', 't']), ([' '], ['2'])] := by
  refine ⟨wordLit_of_check (by decide +kernel), ?_⟩
  intro bw hbw
  simp only [List.mem_cons, List.not_mem_nil, or_false] at hbw
  rcases hbw with rfl | rfl
  · exact ⟨by decide, by decide, Or.inl (wordLit_of_check (by decide +kernel))⟩
  · exact ⟨by decide, by decide, Or.inr (numWord_of_full (by decide +kernel))⟩

/-! ## Stage 3 — expressions mixing literals and fact phrases, arbitrary nesting -/

/-- **Lexer on renderings.** -/
theorem FQ_lex_render (e : FExpr) (ws : Layout) (rest : List Char) (hwf : WFF e)
    (h : LayoutOKF e ws) (hs : ExprStop rest) :
    Lexer.lex ((render e ws).1 ++ rest) = toksF e ws ++ Lexer.lex rest :=
  lexes_lex (lex_f e ws rest _ hwf h hs (lexes_lex_self rest))

theorem FQ_lex_renderQuery (e : FExpr) (ws : Layout) (hwf : WFF e) (h : QueryLayoutOKF e ws) :
    Lexer.lex (renderQuery e ws) = queryToksF e ws :=
  lex_queryF e ws hwf h

/-- The layout hypothesis is always satisfiable: the default layout (one space at every blank
position) is admissible for every expression. -/
theorem FQ_default_layout_ok (e : FExpr) : QueryLayoutOKF e [] := queryLayoutOKF_nil e

/-- **Parser on renderings.** For every well-formed mixed expression and every admissible layout
parsing the rendered query succeeds and the forest consists of blank leaves and exactly one
other tree, which is the tree the documented grammar assigns to `e` (`RepF`: NUMBER nodes, WORD /
SENTENCE nodes whose text is the phrase, one OPERATION node per parenthesised group and per
maximal run of operators of equal priority). -/
theorem FQ_parse_render (e : FExpr) (ws : Layout) (hwf : WFF e) (hl : QueryLayoutOKF e ws) :
    ∃ forest x, parseRoot (renderQuery e ws) = .ok forest ∧
      forest.filter (fun t => t.kind != .WHITESPACE) = [x] ∧ RepF x e := by
  obtain ⟨forest, hp, hF⟩ := parse_renderF e ws hwf hl
  obtain ⟨x, hx, hr⟩ := forestOKF_filter hF
  exact ⟨forest, x, hp, hx, hr⟩

/-- **Evaluator on trees that represent a mixed expression.** For every offset, every incoming
log and sufficient fuel the evaluator's run is the specification's run `evalD cfg e`: the same
result up to the byte spans of errors (`strip`) and the same log. -/
theorem FQ_eval_rep (cfg : Cfg) (t : Tree) (e : FExpr) (off fuel : Nat) (d : List Desc)
    (h : RepF t e) (hl : LitsOKF e) (hf : 2 * size t ≤ fuel) :
    strip (eval cfg fuel ⟨off, t⟩ d).1 = (evalD cfg e d).1 ∧
      (eval cfg fuel ⟨off, t⟩ d).2 = (evalD cfg e d).2 :=
  eval_repF cfg t e off fuel d h hl hf

/-- The specification's run splits into a value that does not depend on the log nor on `describe`
(`denote`) and the list of reports (`logD`), appended when describing. -/
theorem FQ_evalD_run (cfg : Cfg) (e : FExpr) (d : List Desc) :
    evalD cfg e d = (denote cfg e, d ++ if cfg.describe then logD cfg e else []) :=
  evalD_run cfg e d

/-- **C18 (query text of a mixed expression).** For every well-formed expression over number
literals and fact phrases with `+ - * / ^` and parentheses, nested to any depth, and every
admissible layout, `Eval.query` on the text answers with exactly ONE result `r`, which is the
denotation computed from the looked-up constants (`denote cfg e`; equal up to the byte spans of
an error), and the description log is `logD cfg e` when describing — the successful lookups in
evaluation order, each with its constant's description — and empty otherwise. -/
theorem C18_query_mixed (cfg : Cfg) (e : FExpr) (ws : Layout) (hwf : WFF e)
    (hl : QueryLayoutOKF e ws) (hlit : LitsOKF e) :
    ∃ r, strip r = denote cfg e ∧ Eval.query cfg (renderQuery e ws) =
      .ok ([r], if cfg.describe then logD cfg e else []) :=
  query_renderF cfg e ws hwf hl hlit

/-- **C18 (same values with and without describe, mixed expressions).** The describing and the
plain run of a query text return literally the same result; the describing run reports
`logD cfg e`, the plain one nothing. -/
theorem C18_query_mixed_same_value (cfg : Cfg) (e : FExpr) (ws : Layout) (hwf : WFF e)
    (hl : QueryLayoutOKF e ws) (hlit : LitsOKF e) :
    ∃ r, strip r = denote cfg e ∧
      Eval.query { cfg with describe := true } (renderQuery e ws) = .ok ([r], logD cfg e) ∧
      Eval.query { cfg with describe := false } (renderQuery e ws) = .ok ([r], []) := by
  obtain ⟨r, hr, hq⟩ := query_renderF { cfg with describe := true } e ws hwf hl hlit
  obtain ⟨r', _, hq'⟩ := query_renderF { cfg with describe := false } e ws hwf hl hlit
  have h1 := queryFrom_results cfg true (renderQuery e ws) []
  have h2 := queryFrom_results cfg false (renderQuery e ws) []
  rw [queryFrom_nil] at h1 h2
  rw [← h2, hq, hq'] at h1
  simp only [Except.map, Except.ok.injEq, List.cons.injEq, and_true] at h1
  subst h1
  rw [denote_describe] at hr
  rw [logD_describe] at hq
  exact ⟨r, hr, by simpa using hq, by simpa using hq'⟩

/-- **C18 (the log of a successful mixed query).** If the denotation is a value, every phrase of
the expression is in the database and the log of the describing run is exactly the phrases in
evaluation order (`order e`: the right operand before the left one within one operator
application; along a run of operators of equal priority the accumulated left part first), each
paired with its constant's description. Every entry — also of a failing run — reports a fact the
database holds under that phrase. -/
theorem C18_query_mixed_log (cfg : Cfg) (e : FExpr) :
    (∀ v, denote cfg e = .ok v →
      (∀ p ∈ order e, ∃ c, cfg.db p = .found c) ∧
      logD cfg e = (order e).flatMap (lookupLog cfg.db)) ∧
    (∀ x ∈ logD cfg e, ∃ c, cfg.db x.phrase = .found c ∧ x.description = c.description) :=
  ⟨fun v h => logD_success cfg e v h, logD_sound cfg e⟩

/-- **C18 (plain constants: exact rational arithmetic).** When every looked-up constant is a
plain number (empty unit) and the independent specification `Spec.Arith.applyBin` gives the
expression the value `v` (`plainVal`: exact rationals, `^` with integer exponents, no division by
zero), the query text answers exactly `v` as a plain number. (For constants with units the
operations are `Eval.add` / `Eval.mulDiv` / `Eval.pow`, whose meaning is the subject of C02–C04
and C13.) -/
theorem C18_query_mixed_plain (cfg : Cfg) (e : FExpr) (ws : Layout) (v : Rat) (hwf : WFF e)
    (hl : QueryLayoutOKF e ws) (hlit : LitsOKF e) (hv : plainVal cfg.db e = some v) :
    Eval.query cfg (renderQuery e ws) =
      .ok ([.ok (plain v)], if cfg.describe then logD cfg e else []) := by
  obtain ⟨r, hr, hq⟩ := query_renderF cfg e ws hwf hl hlit
  rw [denote_plain cfg e v hv] at hr
  rw [hq, strip_ok_inv hr]

/-! ## Stage 2 — the flat cases, spelled out -/

/-- **C18 (flat).** `phrase op literal`, `literal op phrase`, `phrase op phrase` as text, the
phrases known to the database: one result, the evaluator's arithmetic `arithV` applied to the
looked-up constants and the literal's value; the describing run reports the phrase(s) — for two
phrases the RIGHT one first. -/
theorem C18_query_flat (cfg : Cfg) (op : BinOp) (l : Literal) (f g : List Char) (mf mg : More)
    (ws : Layout) (cf cg : Fact) (hf : PhraseOK f mf) (hg : PhraseOK g mg) (hl : LitOK l)
    (hdbf : cfg.db (phraseText f mf) = .found cf)
    (hdbg : cfg.db (phraseText g mg) = .found cg) :
    (QueryLayoutOKF (.bin op (.fact f mf) (.lit l)) ws →
      ∃ r, strip r = arithV cfg op ⟨cf.value, cf.unit⟩ (plain (value l)) ∧
        Eval.query cfg (renderQuery (.bin op (.fact f mf) (.lit l)) ws) =
          .ok ([r], if cfg.describe then [⟨phraseText f mf, cf.description⟩] else [])) ∧
    (QueryLayoutOKF (.bin op (.lit l) (.fact g mg)) ws →
      ∃ r, strip r = arithV cfg op (plain (value l)) ⟨cg.value, cg.unit⟩ ∧
        Eval.query cfg (renderQuery (.bin op (.lit l) (.fact g mg)) ws) =
          .ok ([r], if cfg.describe then [⟨phraseText g mg, cg.description⟩] else [])) ∧
    (QueryLayoutOKF (.bin op (.fact f mf) (.fact g mg)) ws →
      ∃ r, strip r = arithV cfg op ⟨cf.value, cf.unit⟩ ⟨cg.value, cg.unit⟩ ∧
        Eval.query cfg (renderQuery (.bin op (.fact f mf) (.fact g mg)) ws) =
          .ok ([r], if cfg.describe then
            [⟨phraseText g mg, cg.description⟩, ⟨phraseText f mf, cf.description⟩] else [])) := by
  have hp : ∀ o : BinOp, (100 : Nat) ≠ o.prio := fun o => by cases o <;> decide
  have hlt : ∀ o : BinOp, o.prio < 100 := prio_lt_100
  refine ⟨fun hlay => ?_, fun hlay => ?_, fun hlay => ?_⟩
  · obtain ⟨r, hr, hq⟩ := query_renderF cfg (.bin op (.fact f mf) (.lit l)) ws
      ⟨hf, hl.1, Nat.le_of_lt (hlt op), hlt op⟩ hlay ⟨trivial, hl⟩
    refine ⟨r, ?_, ?_⟩
    · simpa [denote, FExpr.prio, hp op, lookupV, hdbf] using hr
    · simpa [logD, denote, FExpr.prio, hp op, lookupLog, lookupV, hdbf] using hq
  · obtain ⟨r, hr, hq⟩ := query_renderF cfg (.bin op (.lit l) (.fact g mg)) ws
      ⟨hl.1, hg, Nat.le_of_lt (hlt op), hlt op⟩ hlay ⟨hl, trivial⟩
    refine ⟨r, ?_, ?_⟩
    · simpa [denote, FExpr.prio, hp op, lookupV, hdbg] using hr
    · simpa [logD, denote, FExpr.prio, hp op, lookupLog, lookupV, hdbg] using hq
  · obtain ⟨r, hr, hq⟩ := query_renderF cfg (.bin op (.fact f mf) (.fact g mg)) ws
      ⟨hf, hg, Nat.le_of_lt (hlt op), hlt op⟩ hlay ⟨trivial, trivial⟩
    refine ⟨r, ?_, ?_⟩
    · simpa [denote, FExpr.prio, hp op, lookupV, hdbf, hdbg] using hr
    · simpa [logD, denote, FExpr.prio, hp op, lookupLog, lookupV, hdbf, hdbg] using hq

/-! ## Several queries against one database -/

/-- **C18 (isolation, query texts).** A history of query texts — ANY texts — evaluated one after
the other against one database, each with its own `describe` flag, all sharing one description
vector (`runAll`): every query gets the result list it has when evaluated alone, on an empty
vector, with or without `describe`. -/
theorem C18_query_isolated (cfg : Cfg) (qs : List (Bool × List Char)) (d : List Desc) :
    (runAll cfg qs d).1 = qs.map (fun q => (Eval.query cfg q.2).map Prod.fst) :=
  runAll_results cfg qs d

/-- … and the shared vector ends up as the incoming vector followed by what each query reports
alone, in the order of the history. -/
theorem C18_query_isolated_log (cfg : Cfg) (qs : List (Bool × List Char)) (d : List Desc) :
    (runAll cfg qs d).2 = d ++ (qs.map (logAlone cfg)).flatten :=
  runAll_log cfg qs d

/-- **C18 (isolation, varying orders).** The same queries in another order give the same
results, in that other order — whatever the two incoming vectors. -/
theorem C18_query_isolated_perm (cfg : Cfg) (qs qs' : List (Bool × List Char)) (d d' : List Desc)
    (h : qs.Perm qs') : (runAll cfg qs d).1.Perm (runAll cfg qs' d').1 := by
  rw [C18_query_isolated, C18_query_isolated]
  exact h.map _

/-- **C18 (isolation, mixed expressions).** In a history of rendered mixed expressions the
`i`-th query answers its own denotation, whatever was asked before. -/
theorem C18_query_isolated_mixed (cfg : Cfg) (es : List (Bool × FExpr × Layout)) (d : List Desc)
    (hall : ∀ q ∈ es, WFF q.2.1 ∧ QueryLayoutOKF q.2.1 q.2.2 ∧ LitsOKF q.2.1) (i : Nat)
    (q : Bool × FExpr × Layout) (hi : es[i]? = some q) :
    ∃ r, strip r = denote cfg q.2.1 ∧
      (runAll cfg (es.map (fun q => (q.1, renderQuery q.2.1 q.2.2))) d).1[i]? = some (.ok [r]) := by
  obtain ⟨hwf, hl, hlit⟩ := hall q (List.mem_of_getElem? hi)
  obtain ⟨r, hr, hq⟩ := query_renderF cfg q.2.1 q.2.2 hwf hl hlit
  refine ⟨r, hr, ?_⟩
  rw [C18_query_isolated]
  simp only [List.map_map, List.getElem?_map, hi, Option.map_some, Function.comp_apply, hq,
    Except.map]

/-! ## Non-vacuity and tests (labelled as such) -/

namespace Demo

def pi : FExpr := .fact ['p', 'i'] []
def e : FExpr := .fact ['e'] []
def sol : FExpr := .fact ['s', 'p', 'e', 'e', 'd'] [([' '], ['o', 'f']), ([' ', ' '], ['l', 'i', 'g', 'h', 't'])]
def two : FExpr := .lit ⟨none, [2], none, none, false⟩

/-- `pi * 2 + e - speed of  light`. -/
def ex : FExpr := .bin .sub (.bin .add (.bin .mul pi two) e) sol

def db0 : Db := fun s =>
  if s = ['p', 'i'] then .found ⟨3, [], ['r', 'a', 't', 'i', 'o']⟩
  else if s = ['e'] then .found ⟨2, [], ['E', 'u', 'l', 'e', 'r']⟩
  else if s = ['s', 'p', 'e', 'e', 'd', ' ', 'o', 'f', ' ', ' ', 'l', 'i', 'g', 'h', 't'] then .found ⟨5, [], ['c']⟩
  else .nothing

def cfg0 : Cfg := { db := db0, describe := true }

end Demo
open Demo

/-- The example meets every hypothesis of `C18_query_mixed` (layout: no blank before `*`, two
after it, none at the ends). -/
theorem FQ_ex_in_scope :
    String.ofList (renderQuery ex [[], [], [' ', ' ']]) = "pi*  2 + e - speed of  light " ∧
    WFF ex ∧ QueryLayoutOKF ex [[], [], [' ', ' ']] ∧ LitsOKF ex := by
  have hw : ∀ w : List Char, wordLitCheck w = true → WordLit w := fun _ h => wordLit_of_check h
  refine ⟨by decide +kernel, ?_, ?_, ?_⟩
  · refine ⟨⟨⟨⟨hw _ (by decide +kernel), fun _ h => nomatch h⟩, (by decide : Literal.WF _), by decide,
      by decide⟩, ⟨hw _ (by decide +kernel), fun _ h => nomatch h⟩, by decide, by decide⟩,
      ⟨hw _ (by decide +kernel), ?_⟩, by decide, by decide⟩
    intro bw hbw
    simp only [List.mem_cons, List.not_mem_nil, or_false] at hbw
    rcases hbw with rfl | rfl
    · exact ⟨by decide, by decide, Or.inl (hw _ (by decide +kernel))⟩
    · exact ⟨by decide, by decide, Or.inl (hw _ (by decide +kernel))⟩
  · simp [QueryLayoutOKF, LayoutOKF, ex, pi, e, sol, two, Blank, blank1, rest1, afterF, nextBlank,
      render, gluesToSign]
    decide
  · simp [LitsOKF, ex, pi, e, sol, two, LitOK, Literal.WF, fracDigits, Number.u32Max]

/-- Its denotation, log and evaluation order: `(3 * 2 + 2) - 5 = 3`; along the run `… + e - sol`
of equal priority the order is `e`, `pi` (inside the product the right operand `2` first), `sol`. -/
theorem FQ_ex_denotation :
    (denote cfg0 ex).toOption.map (fun n => (n.value, n.unit)) = some (3, []) ∧
    (logD cfg0 ex).map (fun x => String.ofList x.phrase) = ["e", "pi", "speed of  light"] ∧
    (order ex).map String.ofList = ["e", "pi", "speed of  light"] := by
  decide +kernel

/-- Test (labelled as a test): the model's whole pipeline on this text agrees. -/
example :
    (Eval.query cfg0 (renderQuery ex [[], [], [' ', ' ']])).toOption.map
      (fun r => r.1.map (fun x => x.toOption.map (fun n => (n.value, n.unit)))) =
        some [some (3, [])] ∧
    (Eval.query cfg0 (renderQuery ex [[], [], [' ', ' ']])).toOption.map
      (fun r => r.2.map (fun x => String.ofList x.phrase)) =
        some ["e", "pi", "speed of  light"] := by decide +kernel

/-- Non-vacuity of `C18_query_mixed_plain`: all constants of `db0` are plain and the specification
gives `3`. -/
example : plainVal cfg0.db ex = some 3 := by decide +kernel

/-- Non-vacuity of `C18_query_flat`: `pi` and `e` are phrases known to `db0`, `2` is a literal in
scope; every layout hypothesis holds for the default layout. -/
example : PhraseOK ['p', 'i'] [] ∧ PhraseOK ['e'] [] ∧ LitOK ⟨none, [2], none, none, false⟩ ∧
    cfg0.db (phraseText ['p', 'i'] []) = .found ⟨3, [], ['r', 'a', 't', 'i', 'o']⟩ ∧
    cfg0.db (phraseText ['e'] []) = .found ⟨2, [], ['E', 'u', 'l', 'e', 'r']⟩ ∧
    QueryLayoutOKF (.bin .add (.fact ['p', 'i'] []) (.fact ['e'] [])) [] :=
  ⟨⟨wordLit_of_check (by decide +kernel), fun _ h => nomatch h⟩,
   ⟨wordLit_of_check (by decide +kernel), fun _ h => nomatch h⟩,
   by simp [LitOK, Literal.WF, fracDigits, Number.u32Max], by simp [cfg0, db0, phraseText, moreText],
   by simp [cfg0, db0, phraseText, moreText], FQ_default_layout_ok _⟩

/-- Test (labelled as a test) of `C16_phrase` with white space around and inside the phrase: the
model's pipeline answers `oneLookupAnswer`; an unknown phrase is `missing` with the span of the
phrase (bytes 1 to 3 of ` pi `). -/
example :
    (Eval.query cfg0 [' ', 's', 'p', 'e', 'e', 'd', ' ', 'o', 'f', ' ', ' ', 'l', 'i', 'g', 'h', 't']).toOption.map
      (fun r => (r.1.map (fun x => x.toOption.map (·.value)), r.2.map (fun x => String.ofList x.description)))
      = some ([some 5], ["c"]) ∧
    (oneLookupAnswer { db := fun _ => .nothing } ['p', 'i'] 1).1.map
      (fun x => match x with | .error (.err k s t) => some (k, s, t) | _ => none) =
      [some (.missing, 1, 3)] := by decide +kernel

/-- Test (labelled as a test): a percent literal next to a phrase, `e * 50 %` with `e ↦ 2`: the
general theorem applies (`WFF`, `LitsOKF` hold) and the model's pipeline answers `1`. -/
example :
    let half : FExpr := .lit ⟨none, [5, 0], none, none, true⟩
    WFF (.bin .mul e half) ∧ LitsOKF (.bin .mul e half) ∧
    (denote cfg0 (.bin .mul e half)).toOption.map (·.value) = some 1 ∧
    String.ofList (renderQuery (.bin .mul e half) []) = " e * 50 % " ∧
    (Eval.query cfg0 (renderQuery (.bin .mul e half) [])).toOption.map
      (fun r => r.1.map (fun x => x.toOption.map (·.value))) = some [some 1] := by
  refine ⟨⟨⟨wordLit_of_check (by decide +kernel), fun _ h => nomatch h⟩,
    (by decide : Literal.WF _), by decide, by decide⟩, ⟨trivial, ?_⟩,
    by decide +kernel, by decide +kernel, by decide +kernel⟩
  exact ⟨by decide, by decide, fun _ h => nomatch h⟩

/-- **The layout hypothesis is needed**: `pi +e5` — no blank after the binary `+` in front of a
phrase beginning with `e` — is ONE phrase `pi +e5` for the tool (`+e5` lexes as a number), not
a sum. -/
theorem FQ_layout_needed :
    (parseRoot ['p', 'i', ' ', '+', 'e', '5']).toOption.map (fun f => f.map (fun t => (t.kind, String.ofList t.text)))
      = some [(.SENTENCE, "pi +e5")] := by decide +kernel

/-- A history: the same three texts in two orders, sharing one vector. -/
example :
    let qs : List (Bool × List Char) :=
      [(true, ['p', 'i']), (false, ['p', 'i', ' ', '*', ' ', '2']), (true, ['e', ' ', '+', ' ', 'p', 'i'])]
    (runAll cfg0 qs []).1.map (fun r => r.toOption.map (fun l => l.map (fun x => x.toOption.map (·.value))))
      = [some [some 3], some [some 6], some [some 5]] ∧
    (runAll cfg0 qs []).2.map (fun x => String.ofList x.phrase) = ["pi", "pi", "e"] := by
  decide +kernel

/-!
## Remarks (model / specification oddities met on the way)

* **The phrase looked up is the text as typed, blank runs included**: the SENTENCE node spans
  from the first to the last word, so `mercury  orbit` (two blanks) is looked up with two blanks.
  (The search index splits the phrase at blanks again, `Index.words`, so the answer is the same.)
* **Evaluation order**: `x₀ o₁ x₁ o₂ x₂ …` at one priority level evaluates `x₁, x₀, x₂, x₃, …`
  (the first operand is delayed, `Eval.Delayed`): "right before left" holds for the first
  operator of a run only. `evalD`, `logD`, `order` say exactly this; the tree relation `RepF`
  records that the first operand of a run is not itself a run of the same priority, which is
  what makes the order a function of the expression.
* **`+e5` is a number token**: the number scanner accepts an exponent without mantissa after a
  sign, so a phrase beginning with `e`/`E` directly after a binary `+`/`-` is glued to it
  (`FQ_layout_needed`); `LayoutOKF` asks for a blank there (conservatively for every such phrase).
* **A word list is a phrase only in operand position**: after a number the same words are a unit
  expression, after `to` likewise, and a word glued to `(` is a function name (tests above).
* Error spans are not specified for nested expressions (`strip`): they are byte offsets into the
  text and depend on the layout; for a single phrase they are exact (`C16_phrase`).
* **Scope.** Operands are number literals (optionally with a percent sign) and fact phrases;
  function calls (`Props/C06`), literals with units and `to` (`Props/QuantityQuery`) are not
  combined with phrases here. A "word" such as `2x` (digit first, then letters) is two tokens for
  the lexer; it is not a `PWord`.
-/

end Anything.Props.FactQuery
