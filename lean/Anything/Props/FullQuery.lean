import Anything.Lemmas.FULaws
import Anything.Lemmas.FUExamples
/-!
# The FULL expression language END TO END (C06, C09, C10, C13, C18 for query TEXT with units,
looked-up facts, percent literals, temperature scales and builtin calls ANYWHERE)

ONE abstract syntax (`FU.FExprU`, `Lemmas/FUDefs.lean`) for everything the `any` calculator reads as
one expression — number literals including PERCENT literals (`50%`), literals with a written unit
including a LONE OFFSET TEMPERATURE SCALE (`20 °C`, `5 mK`), fact phrases, `+ - * / ^`,
parentheses, casts `to <unit>` (also to a lone offset scale) and builtin CALLS `floor(e)`,
`ceil(e)`, `round(e)`, `round(e, n)` wherever an operand may stand — ONE rendering with layouts
(`FU.render`: `Spec.Quantity.render` extended; a percent literal is written WITH its `%`), and ONE
theorem about `Eval.query` (lexer → parser → evaluator) on the rendered text.

The proof has two halves, both for ALL expressions of the language:

* **Text = reference evaluation** (`F_query_reference`; `Lemmas/FULex`, `FUOperands`, `FUShift`,
  `FUFrames`, `FULoop`, `FURoot`, `FUEval`, `FUQuery`): for every well-formed expression, every
  admissible layout and literals / unit words the readers accept (`InScopeF`), `Eval.query` answers
  exactly ONE result, the value of the REFERENCE EVALUATION `FU.evalF` — the model's own arithmetic
  (`Eval.add`, `Eval.mulDiv`, `Eval.pow`, `Compound.factor`, the builtins, the database lookup)
  composed along the abstract syntax in the evaluator's order — up to the byte spans of errors,
  with `evalF`'s description log. No semantic side condition at all: layout independence (`C06`),
  `describe` (`C18`), the refusals of C09 and the behaviour of a call on whatever its argument
  evaluates to (`C10`) are read off `evalF`.
* **Reference evaluation = specification** (`FU.valF_spec`; `Lemmas/FUSpec*.lean`): under the
  reader guards `UnitsOKF cfg` and the side condition `DeterminateF` the value agrees with the SI
  denotation `FU.denoteF` (`Lemmas/FUSpecDefs.lean`: the clauses of `Spec.Quantity.denote` — `qtyOf`
  / `inUnit` read a lone offset scale as a POINT — plus one clause for calls: the magnitude in the
  unit the argument is expressed in is rounded by `Spec.Arith`, the unit is kept;
  `F_denote_conservative`: on a `QExpr` it IS `Spec.Quantity.denote false`).

Final theorems: `C13_query_full`, `C18_query_full`, `C10_query_nested`, `C09_query_nested`,
`C06_query_full`. What the hypotheses exclude is pinned by counterexample theorems at the end.
-/

namespace Anything.Props.FullQuery
open Anything Anything.Eval Anything.Spec Anything.Spec.Arith Anything.Spec.Decimal
open Anything.Spec.Quantity Anything.Spec.SI Anything.C06 Anything.QQ Anything.QQ.Ex Anything.UQ
open Anything.UQ.Ex Anything.C9Q Anything.C9Q.Ex Anything.FU Anything.FU.Ex
open Anything.Props.C04 Anything.Props.C09

/-! ## The three stages -/

/-- **Lexer on renderings.** For every well-formed expression of the full language and every
admissible layout, the lexer produces, on the rendering followed by any text `rest` that is empty
or starts with a blank, a closing delimiter or an operator, exactly the in-order token list
`toksF e ws` — a percent literal is NUMBER, blank, PERCENTAGE; a call is WORD, `(`, the argument,
[`,`, NUMBER,] `)` — followed by the tokens of `rest`. -/
theorem F_lex_render (e : FExprU) (ws : Layout) (rest : List Char) (hwf : WFF e)
    (h : LayoutOKF e ws) (hs : ExprStop rest) :
    Lexer.lex ((FU.render e ws).1 ++ rest) = toksF e ws ++ Lexer.lex rest :=
  lexStatement e ws rest hwf h hs

/-- Non-vacuity of the layout hypothesis for every expression: the default layout (one space at
every blank position) is admissible as soon as every written unit factor is one lexer word. -/
theorem F_default_layout_ok (e : FExprU) (hwf : WFF e) (hu : UnitsLexOKF e) :
    QueryLayoutOKF e [] :=
  queryLayoutOKF_nil e hwf hu

/-- **Parser on renderings.** Parsing the rendered query succeeds and the forest consists of blank
leaves and exactly one other tree, the tree the documented grammar assigns to `e` (`RepF`): as
`UQ.RepU`, a PERCENTAGE node for a percent literal, and for a call — at ANY depth — an FN_CALL node
whose children with children are the FN_NAME node and the FN_ARGUMENTS node holding the tree(s) of
the argument(s). -/
theorem F_parse_render (e : FExprU) (ws : Layout) (hwf : WFF e) (hl : QueryLayoutOKF e ws) :
    ∃ forest x, Grammar.parseRoot (FU.renderQuery e ws) = .ok forest ∧
      forest.filter (fun t => t.kind != .WHITESPACE) = [x] ∧ RepF x e := by
  obtain ⟨forest, hp, hF⟩ := parse_renderF e ws hwf hl
  obtain ⟨x, hx, hr⟩ := forestOKF_filter hF
  exact ⟨forest, x, hp, hx, hr⟩

/-- **Evaluator on trees that represent an expression.** For every configuration, offset, fuel
and incoming log the evaluator does what the reference evaluation says: same result up to the
spans of errors (`FQ.strip`), same description log. -/
theorem F_eval_represents (cfg : Cfg) (t : Tree) (e : FExprU) (off fuel : Nat) (d : List Desc)
    (h : RepF t e) (hs : InScopeF e) (hf : 2 * size t ≤ fuel) :
    FQ.Sim (eval cfg fuel ⟨off, t⟩ d) (evalF cfg e d) :=
  evalStatement cfg t e off fuel d h hs hf

/-- **The whole pipeline = the reference evaluation.** `Eval.query` on the rendering of ANY
well-formed expression of the full language under ANY admissible layout, with literals and unit
words the readers accept, answers exactly one result `r`: the value `valF cfg e` of the reference
evaluation (up to the spans of an error), and reports `logF cfg e` — the successful lookups in
evaluation order — when describing, nothing otherwise. -/
theorem F_query_reference (cfg : Cfg) (e : FExprU) (ws : Layout) (hwf : WFF e)
    (hl : QueryLayoutOKF e ws) (hs : InScopeF e) :
    ∃ r, Eval.query cfg (FU.renderQuery e ws) =
        .ok ([r], if cfg.describe then logF cfg e else []) ∧
      FQ.strip r = valF cfg e :=
  query_valF cfg e ws hwf hl hs

/-- **Conservativity of the denotation**: on the embedding of a `Spec.Quantity.QExpr` the
denotation of the full language is `Spec.Quantity.denote false`. -/
theorem F_denote_conservative (e : QExpr) : denoteF (ofQ e) = denote false e := denoteF_ofQ e

/-- **Conservativity of the rendering**: on the embedding of a `QExpr` without percent literal
(`Spec.Quantity.render` writes no `%`) the text is the one `Spec.Quantity.renderQuery` writes — so
the theorems below are about the very texts of `Props/UnifiedQuery`, and more. -/
theorem F_render_conservative (e : QExpr) (ws : Layout) (h : NoPctQ e) :
    FU.renderQuery (ofQ e) ws = Quantity.renderQuery e ws :=
  renderQuery_ofQ e ws h

/-- The reader guards of the specification theorem imply those of the pipeline theorem. -/
theorem F_scope (cfg : Cfg) (e : FExprU) (h : UnitsOKF cfg e) : InScopeF e :=
  inScope_of_unitsOK cfg e h

/-! ## C13 — the value the specification determines -/

/-- **C13 (whole queries of the FULL language).** For every expression `e` — literals, percent
literals, units, lone temperature scales, facts, `+ - * / ^`, parentheses, casts, calls anywhere —
that is well formed (`WFF`), in the scope of the readers and of the database (`UnitsOKF cfg`),
`DeterminateF` and without `PowRiskF`, and every admissible layout, `Eval.query` on the text is a
single result: a value `r` with `AgreeF r v` when `denoteF e = .ok v` (same SI value and
dimensions, `C13_agree_si`; for a value on an offset scale the same kelvin POINT, `C13_agree_point`)
— and then the description log is exactly `descLogF cfg e` —, or a single error exactly when the
specification has none. -/
theorem C13_query_full (cfg : Cfg) (e : FExprU) (ws : Layout) (hwf : WFF e)
    (hl : QueryLayoutOKF e ws) (hu : UnitsOKF cfg e) (hdet : DeterminateF e) (hp : ¬ PowRiskF e) :
    match denoteF e with
    | .ok v => ∃ r, Eval.query cfg (FU.renderQuery e ws) = .ok ([.ok r], descLogF cfg e) ∧
        AgreeF r v
    | .error _ => ∃ k s t L, Eval.query cfg (FU.renderQuery e ws) =
        .ok ([.error (.err k s t)], L) ∧ L <+: descLogF cfg e := by
  cases hv : denoteF e with
  | ok v =>
    obtain ⟨r, hr, ha, _⟩ := query_full_ok cfg e ws v hwf hl hu hdet hp hv
    exact ⟨r, hr, ha⟩
  | error z => exact query_full_err cfg e ws z hwf hl hu hdet hv

/-- What `AgreeF` says for a value without offset scale: the tool's result has the SI value and
the dimensions of the specification (and is `QQ.Agree`). -/
theorem C13_agree_si {r : Numeric} {v : Val} (h : AgreeF r v) (hn : NoOffset v) :
    siQ r = v.q ∧ Agree r v :=
  ⟨(agreeF_noOffset h hn).si, agreeF_noOffset h hn⟩

/-- What `AgreeF` says for a value the specification expresses on the offset scale `<p><s>`
(`°C` or `°F`): the tool answers a magnitude on exactly that scale, and the specification's value is
its kelvin POINT `toK s (x · 10^p)` (`K = C + 273.15`, `C = (F − 32)·5/9`). -/
theorem C13_agree_point {r : Numeric} {v : Val} {s : TScale} {p : Int} (h : AgreeF r v)
    (hu : v.unit = some [⟨p, key s, 1⟩]) (hs : s ≠ .K) :
    r.unit = Props.C09.cmp s p ∧ v.q = ⟨toK s (r.value * (10 : Rat) ^ p), dimK⟩ := by
  rcases h with h | ⟨s', p', hr, hv, hq, _⟩
  · have := (h.unit _ hu).2
    rw [proportional_scale] at this
    exact absurd (by simpa using this) hs
  · rw [hu] at hv
    have ht : (⟨p, key s, 1⟩ : UTerm) = ⟨p', key s', 1⟩ :=
      List.head_eq_of_cons_eq (Option.some.inj hv)
    have hpp : p = p' := congrArg UTerm.pfx ht
    have hss : s = s' := key_inj (congrArg UTerm.key ht)
    subst hss hpp
    exact ⟨hr, hq⟩

/-- Whenever a query text answers a value at all (no hypothesis on powers), the specification has a
value, the result agrees with it, and the log is all of `descLogF cfg e`. -/
theorem C13_query_full_value (cfg : Cfg) (e : FExprU) (ws : Layout) (r : Numeric) (L : List Desc)
    (hwf : WFF e) (hl : QueryLayoutOKF e ws) (hu : UnitsOKF cfg e) (hdet : DeterminateF e)
    (hr : Eval.query cfg (FU.renderQuery e ws) = .ok ([.ok r], L)) :
    ∃ v, denoteF e = .ok v ∧ AgreeF r v ∧ L = descLogF cfg e := by
  obtain ⟨r', hq, ho, hs⟩ := query_spec cfg e ws hwf hl hu hdet
  rw [hq] at hr
  simp only [Except.ok.injEq, Prod.mk.injEq, List.cons.injEq, and_true] at hr
  obtain ⟨rfl, rfl⟩ := hr
  unfold OutcomeF at ho
  cases hv : denoteF e with
  | ok v =>
    rw [hv] at ho
    rcases ho with ⟨x, hx, ha, _⟩ | ⟨_, s, t, hx⟩
    · cases hx
      refine ⟨v, rfl, ha, ?_⟩
      have := (logF_prefix cfg e).2 ⟨_, hs.symm⟩
      simp only [descLogF, this]
    · cases hx
  | error z =>
    rw [hv] at ho
    obtain ⟨k, s, t, hx⟩ := ho
    cases hx

/-! ## C18 — describe -/

/-- **C18 (describe, whole queries of the full language).** For every well-formed expression in
the scope of the readers (`InScopeF`; NO hypothesis on the database, none on units or operands), the
describing and the plain run of a query text return literally the same single result `r`, whose
value is `valF cfg e`; the plain run reports nothing; the describing run reports `logF cfg e`: a
prefix of the lookups of ALL phrases of `e` in evaluation order (`fullLogF`: right operand before
left operand, except that along a run of operators of equal priority the accumulated left part
comes first; the argument of a call where the call stands), exactly that whole list when `r` is a
value, and every entry carries a constant of the database under its phrase. -/
theorem C18_query_full (cfg : Cfg) (e : FExprU) (ws : Layout) (hwf : WFF e)
    (hl : QueryLayoutOKF e ws) (hs : InScopeF e) :
    ∃ r, Eval.query { cfg with describe := true } (FU.renderQuery e ws) = .ok ([r], logF cfg e) ∧
      Eval.query { cfg with describe := false } (FU.renderQuery e ws) = .ok ([r], []) ∧
      FQ.strip r = valF cfg e ∧
      logF cfg e <+: (orderF e).flatMap (FQ.lookupLog cfg.db) ∧
      ((∃ a, r = .ok a) → logF cfg e = (orderF e).flatMap (FQ.lookupLog cfg.db)) ∧
      ∀ x ∈ logF cfg e, ∃ c, cfg.db x.phrase = .found c ∧ x.description = c.description := by
  obtain ⟨r₁, h1, s1⟩ := query_valF { cfg with describe := true } e ws hwf hl hs
  obtain ⟨r₂, h2, s2⟩ := query_valF { cfg with describe := false } e ws hwf hl hs
  simp only [↓reduceIte, Bool.false_eq_true] at h1 h2
  rw [logF_describe] at h1
  rw [valF_describe] at s1 s2
  have hsame := query_same_describe { cfg with describe := true } (FU.renderQuery e ws) false
  have hcfg : ({ ({ cfg with describe := true } : Cfg) with describe := false } : Cfg) =
      { cfg with describe := false } := rfl
  rw [hcfg, h1, h2] at hsame
  simp only [Except.map, Except.ok.injEq, List.cons.injEq, and_true] at hsame
  subst hsame
  refine ⟨r₂, h1, h2, s1, (logF_prefix cfg e).1, fun ⟨a, ha⟩ => ?_, logF_sound cfg e⟩
  subst ha
  exact (logF_prefix cfg e).2 ⟨a, s1.symm⟩

/-- With the database answering every phrase of `e` (`UnitsOKF cfg`), the full list is one entry
per phrase in evaluation order, each with the description the database holds; `orderF e` is a
permutation of the fact leaves read left to right. -/
theorem C18_log_entries (cfg : Cfg) (e : FExprU) (hu : UnitsOKF cfg e) :
    (orderF e).flatMap (FQ.lookupLog cfg.db) = (orderF e).map (fun p => ⟨p, descOf cfg.db p⟩) ∧
      (orderF e).Perm (factLeavesF e) :=
  ⟨fullLogF_eq cfg e hu, orderF_perm e⟩

/-! ## C06 — layout independence -/

/-- **C06 (layout independence for the full language).** Two admissible layouts of the same
expression give the same single result — the same value, or an error of the same kind (only the
byte spans of an error, which are positions in the text, may differ: `FQ.strip` forgets them) —
and literally the same description log. -/
theorem C06_query_full (cfg : Cfg) (e : FExprU) (ws ws' : Layout) (hwf : WFF e)
    (hl : QueryLayoutOKF e ws) (hl' : QueryLayoutOKF e ws') (hs : InScopeF e) :
    ∃ r r' L, Eval.query cfg (FU.renderQuery e ws) = .ok ([r], L) ∧
      Eval.query cfg (FU.renderQuery e ws') = .ok ([r'], L) ∧ FQ.strip r = FQ.strip r' ∧
      (∀ x, r = .ok x ↔ r' = .ok x) := by
  obtain ⟨r, h1, s1⟩ := query_valF cfg e ws hwf hl hs
  obtain ⟨r', h2, s2⟩ := query_valF cfg e ws' hwf hl' hs
  refine ⟨r, r', _, h1, h2, s1.trans s2.symm, fun x => ⟨fun h => ?_, fun h => ?_⟩⟩
  · subst h
    exact strip_ok_inv (s2.trans s1.symm)
  · subst h
    exact strip_ok_inv (s1.trans s2.symm)

/-! ## C10 — a builtin call anywhere -/

/-- **C10 (query, a call ANYWHERE).** Let `e` be any expression of the full language — so with
calls at any depth: as operands of operators (`floor(x) + 1`), inside parentheses, under `to`,
inside the argument of another call.
(1) `Eval.query` on the text answers the reference value `valF cfg e` (`F_query_reference`);
(2) at EVERY call node `f(arg)` / `f(arg, n)` of the language, whatever the argument expression
    `arg` is and whatever it evaluates to, that value is: an error of the argument passed on;
    otherwise the argument's value `a` with its UNIT KEPT and its MAGNITUDE ROUNDED by
    `UQ.roundMag` — `Spec.Arith.floorI`, `ceilI`, `roundHalfAway`, `roundTo a.value n` —, and
    `argumentMismatch` for `floor` / `ceil` with a precision (`n` an integer literal within `i32`);
(3) against the specification: in scope (`UnitsOKF`, `DeterminateF`, no `PowRiskF`) the single result
    agrees with `denoteF e`, whose clause for a call (`callVal`) rounds the magnitude in the unit the
    argument is expressed in and keeps the unit; an error exactly when `denoteF e` has no value. -/
theorem C10_query_nested (cfg : Cfg) :
    (∀ (e : FExprU) (ws : Layout), WFF e → QueryLayoutOKF e ws → InScopeF e →
      ∃ r, Eval.query cfg (FU.renderQuery e ws) =
          .ok ([r], if cfg.describe then logF cfg e else []) ∧ FQ.strip r = valF cfg e) ∧
    (∀ (f : Fn) (arg : FExprU) (prec : Option Literal),
      (∀ n, prec = some n → Arith.isInt (value n) = true ∧
        -2147483648 ≤ (value n).num ∧ (value n).num ≤ 2147483647) →
      valF cfg (.call f arg prec) =
        match valF cfg arg with
        | .error x => .error x
        | .ok a =>
          match roundMag f (precOf prec) a.value with
          | some m => .ok { value := m, unit := a.unit }
          | none => .error (.err .argumentMismatch 0 0)) ∧
    (∀ (e : FExprU) (ws : Layout), WFF e → QueryLayoutOKF e ws → UnitsOKF cfg e → DeterminateF e →
      ¬ PowRiskF e →
      match denoteF e with
      | .ok v => ∃ r, Eval.query cfg (FU.renderQuery e ws) = .ok ([.ok r], descLogF cfg e) ∧
          AgreeF r v
      | .error _ => ∃ k s t L, Eval.query cfg (FU.renderQuery e ws) =
          .ok ([.error (.err k s t)], L)) :=
  ⟨fun e ws hwf hl hs => query_valF cfg e ws hwf hl hs,
   fun f arg prec hn => valF_call cfg f arg prec hn,
   fun e ws hwf hl hu hdet hp => by
    have h := C13_query_full cfg e ws hwf hl hu hdet hp
    cases hv : denoteF e with
    | ok v => rw [hv] at h; exact h
    | error z =>
      rw [hv] at h
      obtain ⟨k, s, t, L, hq, _⟩ := h
      exact ⟨k, s, t, L, hq⟩⟩

/-- **C10 (a call as an operand: `f(a) op b`).** In scope, the text `f( a ) op b` has the value
of the binary step `QQ.binVal op` applied to `callVal f none` of the value of `a` and the value of
`b`. -/
theorem C10_query_call_operand (cfg : Cfg) (f : Fn) (op : BinOp) (a b : FExprU) (ws : Layout)
    (va vb w : Val) (hwf : WFF (.bin op (.call f a none) b))
    (hl : QueryLayoutOKF (.bin op (.call f a none) b) ws)
    (hu : UnitsOKF cfg (.bin op (.call f a none) b))
    (hdet : DeterminateF (.bin op (.call f a none) b))
    (hp : ¬ PowRiskF (.bin op (.call f a none) b))
    (ha : denoteF a = .ok va) (hb : denoteF b = .ok vb)
    (hw : (callVal f none va).bind (fun c => binVal op c vb) = .ok w) :
    ∃ r, Eval.query cfg (FU.renderQuery (.bin op (.call f a none) b) ws) =
        .ok ([.ok r], descLogF cfg (.bin op (.call f a none) b)) ∧ AgreeF r w := by
  have h := C13_query_full cfg _ ws hwf hl hu hdet hp
  have hden : denoteF (.bin op (.call f a none) b) = .ok w := by
    rw [denoteF_bin, denoteF_call, ha, hb]
    simp only
    cases hc : callVal f none va with
    | error z => rw [hc] at hw; cases hw
    | ok c => rw [hc] at hw; exact hw
  rw [hden] at h
  exact h

/-! ## C09 — temperature leaves and casts inside expressions -/

/-- **C09 (query, temperatures nested in expressions).** Let `e` be any expression of the full
language in scope — lone offset scales at leaves (`20 °C`) and as cast targets (`… to °F`) anywhere
an operand or a cast may stand: in parentheses, as the argument of a call, as the left operand of a
further cast, next to operators as long as no operand of `+ - * / ^` carries an offset scale
(`DeterminateF`). If the specification expresses the value of `e` on the offset scale `<p><s>`
(`°C` / `°F`, any prefix), then `Eval.query` answers ONE value `r`, a magnitude on exactly that
scale (`r.unit = cmp s p`), and the specification's kelvin point is `toK s (r.value · 10^p)`; if
the specification's value carries no offset scale, `r` has its SI value and dimensions. -/
theorem C09_query_nested (cfg : Cfg) (e : FExprU) (ws : Layout) (v : Val) (hwf : WFF e)
    (hl : QueryLayoutOKF e ws) (hu : UnitsOKF cfg e) (hdet : DeterminateF e) (hp : ¬ PowRiskF e)
    (hv : denoteF e = .ok v) :
    ∃ r, Eval.query cfg (FU.renderQuery e ws) = .ok ([.ok r], descLogF cfg e) ∧
      (∀ s p, v.unit = some [⟨p, key s, 1⟩] → s ≠ .K →
        r.unit = Props.C09.cmp s p ∧ v.q = ⟨toK s (r.value * (10 : Rat) ^ p), dimK⟩) ∧
      (NoOffset v → siQ r = v.q) := by
  obtain ⟨r, hr, ha, _⟩ := query_full_ok cfg e ws v hwf hl hu hdet hp hv
  exact ⟨r, hr, fun s p h1 h2 => C13_agree_point ha h1 h2, fun hn => (C13_agree_si ha hn).1⟩

/-- **C09 (query: a conversion as the argument of a call)**, explicitly: `f( x <p><s> to <q><t> )`
for scales `s`, `t` ∈ {K, °C, °F} in any table spelling behind any SI prefix, any literal `x`, any
admissible layout, answers the converted value — through kelvin by the defining formulas —
rounded by `f`, in the unit `<q><t>`: `floor(98.6 °F to °C)` is `37 °C`. -/
theorem C09_query_nested_call (cfg : Cfg) (f : Fn) (s t : TScale) (p q : Int) (t₁ t₂ : RTerm)
    (l : Literal) (ws : Layout) (h₁ : Written s p t₁) (h₂ : Written t q t₂) (hlit : LitOKQ l)
    (hlay : QueryLayoutOKF (.call f (.cast (.qty l [t₁]) [t₂]) none) ws) :
    Eval.query cfg (FU.renderQuery (.call f (.cast (.qty l [t₁]) [t₂]) none) ws) =
      .ok ([.ok { value := roundFn f (fromK t (toK s (value l * (10 : Rat) ^ p)) / (10 : Rat) ^ q),
                  unit := Props.C09.cmp t q }], []) := by
  have hwf : WFF (.call f (.cast (.qty l [t₁]) [t₂]) none) :=
    ⟨⟨hlit.1.1, hlit.2⟩, fun n h => nomatch h⟩
  have hs : InScopeF (.call f (.cast (.qty l [t₁]) [t₂]) none) :=
    ⟨⟨⟨hlit.1, unitRuns_written h₁⟩, unitRuns_written h₂⟩, fun n h => nomatch h⟩
  have hval : valF cfg (.call f (.cast (.qty l [t₁]) [t₂]) none) =
      .ok { value := roundFn f (fromK t (toK s (value l * (10 : Rat) ^ p)) / (10 : Rat) ^ q),
            unit := Props.C09.cmp t q } := by
    rw [valF_call cfg f _ none (fun n h => nomatch h)]
    have hc : valF cfg (.cast (.qty l [t₁]) [t₂]) =
        .ok { value := fromK t (toK s (value l * (10 : Rat) ^ p)) / (10 : Rat) ^ q,
              unit := Props.C09.cmp t q } := by
      rw [valF_cast_ok cfg _ _ { value := value l, unit := Props.C09.cmp s p }
        (by simp only [valF, unitC_written h₁])]
      rw [unitC_written h₂]
      exact castV_of_factor (C09_convert t q s p (value l))
    rw [hc]
    cases f <;> rfl
  have h := query_ok_of_valF cfg _ ws _ hwf hlay hs hval
  rw [h]
  simp [logF]

/-- **C09 (query: the refusals, for ARBITRARY operand expressions of the full language).**
`a * b`, `a / b` as text, `a` and `b` any expressions (with calls, casts, facts …) whose values
both carry a unit, one of them containing an offset scale (even alone with power one:
`floor(20 °C) * 2 m`): a single ERROR, `conversionNotPossible` — the zero point is never
multiplied. -/
theorem C09_query_nested_refused_product (cfg : Cfg) (op : BinOp) (hop : op = .mul ∨ op = .div)
    (a b : FExprU) (ra rb : Numeric) (ws : Layout) (hwf : WFF (.bin op a b))
    (hl : QueryLayoutOKF (.bin op a b) ws) (hs : InScopeF (.bin op a b))
    (hra : valF cfg a = .ok ra) (hrb : valF cfg b = .ok rb) (na : ra.unit ≠ []) (nb : rb.unit ≠ [])
    (h : HasOffset ra.unit ∨ HasOffset rb.unit) :
    ∃ s t L, Eval.query cfg (FU.renderQuery (.bin op a b) ws) =
      .ok ([.error (.err .conversionNotPossible s t)], L) := by
  refine query_err_of_valF cfg _ ws _ hwf hl hs ?_
  rw [valF_bin_ok cfg op a b ra rb hra hrb]
  exact arithV_muldiv_refused cfg op hop ra rb na nb h

/-- **C09 (query: refused sums and differences, arbitrary operands).** `a + b`, `a - b`, both
values carrying a unit, one of them with an offset scale that is not alone with power one
(`BadOffset`): a single ERROR (`illegalOperation` or `conversionNotPossible`). -/
theorem C09_query_nested_refused_sum (cfg : Cfg) (op : BinOp) (hop : op = .add ∨ op = .sub)
    (a b : FExprU) (ra rb : Numeric) (ws : Layout) (hwf : WFF (.bin op a b))
    (hl : QueryLayoutOKF (.bin op a b) ws) (hs : InScopeF (.bin op a b))
    (hra : valF cfg a = .ok ra) (hrb : valF cfg b = .ok rb) (na : ra.unit ≠ []) (nb : rb.unit ≠ [])
    (h : BadOffset ra.unit ∨ BadOffset rb.unit) :
    ∃ k s t L, Eval.query cfg (FU.renderQuery (.bin op a b) ws) =
      .ok ([.error (.err k s t)], L) ∧ (k = .illegalOperation ∨ k = .conversionNotPossible) := by
  obtain ⟨k, hk, hK⟩ := arithV_addsub_refused cfg op hop ra rb na nb h
  obtain ⟨s, t, L, hq⟩ := query_err_of_valF cfg _ ws k hwf hl hs
    (by rw [valF_bin_ok cfg op a b ra rb hra hrb]; exact hk)
  exact ⟨k, s, t, L, hq, hK⟩

/-- **C09 (query: refused conversions, arbitrary operand).** `a to u`, the value of `a` carrying
a unit with a misused offset scale, or the target `u` misusing one: a single ERROR (`illegalCast`
or `conversionNotPossible`). -/
theorem C09_query_nested_refused_cast (cfg : Cfg) (a : FExprU) (u : List RTerm) (r : Numeric)
    (ws : Layout) (hwf : WFF (.cast a u)) (hl : QueryLayoutOKF (.cast a u) ws)
    (hs : InScopeF (.cast a u)) (hr : valF cfg a = .ok r) (hne : r.unit ≠ []) (hT : unitC u ≠ [])
    (h : BadOffset r.unit ∨ BadOffset (unitC u)) :
    ∃ k s t L, Eval.query cfg (FU.renderQuery (.cast a u) ws) = .ok ([.error (.err k s t)], L) ∧
      (k = .illegalCast ∨ k = .conversionNotPossible) := by
  obtain ⟨k, hk, hK⟩ := castV_refused (unitC u) r hT hne h
  obtain ⟨s, t, L, hq⟩ := query_err_of_valF cfg _ ws k hwf hl hs
    (by rw [valF_cast_ok cfg a u r hr]; exact hk)
  exact ⟨k, s, t, L, hq, hK⟩

/-! ## Non-vacuity and tests (labelled as such) -/

/-- Non-vacuity of `F_lex_render`, `F_parse_render`, `F_query_reference`, `C13_query_full`,
`C18_query_full`, `C06_query_full`, `C10_query_nested`: the text
`floor( 2 * speed of light to km/s ) + 50 %` — a call as an operand, a cast and a fact inside
its argument, a percent literal — over the one-constant database `db1` meets ALL hypotheses at
once under the default layout; the specification's value is 599 584 500 m/s (= 599 584 km/s + 0.5,
the plain `50%` adopting the unit `km/s` of the call). -/
theorem exFull_ok :
    String.ofList (FU.renderQuery exFull []) = " floor( 2 * speed of light to km/s ) + 50 % " ∧
    WFF exFull ∧ QueryLayoutOKF exFull [] ∧ UnitsOKF cfg1 exFull ∧ DeterminateF exFull ∧
    ¬ PowRiskF exFull ∧ InScopeF exFull ∧
    (denoteF exFull).toOption.map (fun v => (v.q.si, v.q.dim, v.plain)) =
      some (599584500, [0, 0, 1, -1, 0, 0, 0, 0], false) ∧
    orderF exFull = [solPhrase] := by
  obtain ⟨h1, h2, h3, h4, h5⟩ := exFull_in_scope
  exact ⟨by decide +kernel, h1, h2, h3, h4, h5, F_scope cfg1 _ h3, by decide +kernel, rfl⟩

/-- Test (labelled as a test): the model's whole pipeline on this text answers 599 584.5 km/s and
reports the one lookup. -/
example :
    (Eval.query cfg1 (FU.renderQuery exFull [])).toOption.map
      (fun r => r.1.map (fun x => x.toOption.map (fun n => (n.value, n.unit)))) =
      some [some (1199169 / 2, [(.base .Meter, ⟨1, 3⟩), (.base .Second, ⟨-1, 0⟩)])] ∧
    (Eval.query cfg1 (FU.renderQuery exFull [])).toOption.map
      (fun r => r.2.map (fun x => String.ofList x.phrase)) = some ["speed of light"] := by
  decide +kernel

/-- Non-vacuity of `C06_query_full`: a second admissible layout of the same expression (two spaces
in front). -/
example : QueryLayoutOKF exFull [[' ', ' ']] ∧
    String.ofList (FU.renderQuery exFull [[' ', ' ']]) =
      "  floor( 2 * speed of light to km/s ) + 50 % " := by
  obtain ⟨_, ⟨_, h, hb⟩, _⟩ := exFull_in_scope
  exact ⟨⟨by decide, h, hb⟩, by decide +kernel⟩

/-- Non-vacuity of `C09_query_nested` and `C09_query_nested_call`: `floor( 98.6 °F to °C )` — a
lone offset scale at the leaf AND as the cast target, inside a call — is in scope; the specification
expresses its value on the scale `°C` (the kelvin point 310.15 K = 37 °C). -/
theorem exTemp_ok :
    String.ofList (FU.renderQuery exTemp []) = " floor( 98.6 °F to °C ) " ∧
    WFF exTemp ∧ QueryLayoutOKF exTemp [] ∧ UnitsOKF cfg1 exTemp ∧ DeterminateF exTemp ∧
    ¬ PowRiskF exTemp ∧
    (denoteF exTemp).toOption.map
      (fun v => (v.q.si, v.unit.map (fun u => u.map (fun t => (t.pfx, t.key, t.power))))) =
      some (6203 / 20, some [(0, key .C, 1)]) := by
  obtain ⟨h1, h2, h3, h4, h5⟩ := exTemp_in_scope
  exact ⟨by decide +kernel, h1, h2, h3, h4, h5, by decide +kernel⟩

/-- Tests (labelled as tests): the pipeline answers `37 °C`; `( 20 °C to K ) * 2` is 586.3 K;
`round( 1 + 2 , 1 ) * 50 % to m` is 1.5 m. -/
example :
    (Eval.query nodb (FU.renderQuery exTemp [])).toOption.map
      (fun r => r.1.map (fun x => x.toOption.map (fun n => (n.value, n.unit)))) =
      some [some (37, Props.C09.cmp .C 0)] ∧
    (Eval.query nodb (FU.renderQuery exTempK [])).toOption.map
      (fun r => r.1.map (fun x => x.toOption.map (fun n => (n.value, n.unit)))) =
      some [some (5863 / 10, Props.C09.cmp .K 0)] ∧
    String.ofList (FU.renderQuery exNest []) = " round( 1 + 2 , 1 ) * 50 % to m " ∧
    (Eval.query nodb (FU.renderQuery exNest [])).toOption.map
      (fun r => r.1.map (fun x => x.toOption.map (fun n => (n.value, n.unit)))) =
      some [some (3 / 2, [(.base .Meter, ⟨1, 0⟩)])] :=
  ⟨by decide +kernel, by decide +kernel, by decide +kernel, by decide +kernel⟩

/-- Non-vacuity of `C09_query_nested_refused_product`: `floor( 20 °C ) * 2 m` — the left operand a
CALL whose value `20 °C` carries an offset scale, the right operand a length — meets its
hypotheses; the pipeline answers `conversionNotPossible` (labelled test). -/
example : WFF exRefused ∧ QueryLayoutOKF exRefused [] ∧ InScopeF exRefused ∧
    valF nodb (.call .floor (.qty (natLit [2, 0]) [degC]) none) = .ok ⟨20, Props.C09.cmp .C 0⟩ ∧
    valF nodb (.qty (natLit [2]) m) = .ok ⟨2, [(.base .Meter, ⟨1, 0⟩)]⟩ ∧
    HasOffset (Props.C09.cmp .C 0) ∧
    (Eval.query nodb (FU.renderQuery exRefused [])).toOption.map
      (fun r => r.1.map (fun x => match x with | .error (.err k _ _) => some k | _ => none)) =
      some [some .conversionNotPossible] := by
  have hwf : WFF exRefused := by
    refine ⟨⟨⟨(by decide : Literal.WF _), rfl⟩, fun n h => nomatch h⟩,
      ⟨(by decide : Literal.WF _), rfl⟩, ?_, ?_⟩ <;> simp [qprioF, BinOp.prio]
  refine ⟨hwf, queryLayoutOKF_nil _ hwf
      ⟨unitLexOK_written written_degC, unitLexOK_of_check (by decide +kernel)⟩,
    ⟨⟨⟨litOKQ_20.1, unitRuns_written written_degC⟩, fun n h => nomatch h⟩,
      (litOKQ_digit 2 (by omega)).1, unitRuns_of_unitOK unitOK_m⟩,
    by decide +kernel, by decide +kernel,
    ⟨_, List.mem_singleton.mpr rfl, isOffsetScale_of_affine affine_CF.1⟩, by decide +kernel⟩

/-! ## What the hypotheses exclude — boundary cases, pinned -/

/-- **A percent literal carries no unit.** `50% m` is TWO expressions for the tool (a PERCENTAGE
node, then the word `m` looked up as a phrase): two results. `WFF` therefore asks `percent = false`
of a literal with unit. As an operand a percent literal is a plain number: `50 % * 3 m` is `1.5 m`,
`5 % to m` is `0.05 m` (the plain number adopts the unit). -/
theorem F_percent_carries_no_unit :
    (Grammar.parseRoot "50% m".toList).toOption.map (fun f => f.map Tree.kind) =
      some [.PERCENTAGE, .WHITESPACE, .WORD] ∧
    (Eval.query nodb "50% m".toList).toOption.map (fun r => r.1.length) = some 2 ∧
    (Eval.query nodb "50 % * 3 m".toList).toOption.map
      (fun r => r.1.map (fun x => x.toOption.map (fun n => (n.value, n.unit)))) =
      some [some (3 / 2, [(.base .Meter, ⟨1, 0⟩)])] ∧
    (Eval.query nodb "5 % to m".toList).toOption.map
      (fun r => r.1.map (fun x => x.toOption.map (fun n => (n.value, n.unit)))) =
      some [some (1 / 20, [(.base .Meter, ⟨1, 0⟩)])] :=
  ⟨by decide +kernel, by decide +kernel, by decide +kernel, by decide +kernel⟩

/-- **A function name is glued to its parenthesis.** `floor (2)` — a blank between the name and
`(`, which `FU.render` never writes — is the phrase `floor` followed by the group `(2)`: two
results. -/
theorem F_call_needs_glue :
    (Grammar.parseRoot "floor (2)".toList).toOption.map (fun f => f.map Tree.kind) =
      some [.WORD, .WHITESPACE, .OPERATION] ∧
    (Grammar.parseRoot "floor(2)".toList).toOption.map (fun f => f.map Tree.kind) =
      some [.FN_CALL] := by decide +kernel

/-- **Finding (an offset scale under `*`).** `20 °C * 2`: the specification computes with the
kelvin POINT (293.15 K · 2 = 586.3 K); the tool doubles the magnitude and answers `40 °C`
(313.15 K) — no zero point is involved in its `*`. `DeterminateF` (`NoOffset` for the operands of
`+ - * / ^`) excludes it; `( 20 °C to K ) * 2` is in scope and both answer 586.3 K. -/
theorem F_finding_offset_under_mul :
    (denoteF exBadMul).toOption.map (fun v => (v.q.si, v.unit.isSome)) = some (5863 / 10, false) ∧
    (Eval.query nodb (FU.renderQuery exBadMul [])).toOption.map
      (fun r => r.1.map (fun x => x.toOption.map (fun n => (n.value, n.unit)))) =
      some [some (40, Props.C09.cmp .C 0)] ∧
    (denoteF exTempK).toOption.map (fun v => v.q.si) = some (5863 / 10) := by decide +kernel

/-- **Finding (a plain number cast to an offset scale).** `20 to °C`: the specification's clause
for a plain number (`v.q.si * scale sem`) reads the degree as an interval (20 K); the tool answers
the POINT `20 °C`. `CastOKF` excludes a plain number as the source of a temperature conversion. -/
theorem F_finding_plain_to_offset :
    (denoteF exBadCast).toOption.map (fun v => v.q.si) = some 20 ∧
    (Eval.query nodb (FU.renderQuery exBadCast [])).toOption.map
      (fun r => r.1.map (fun x => x.toOption.map (fun n => (n.value, n.unit)))) =
      some [some (20, Props.C09.cmp .C 0)] := by decide +kernel

/-- **Finding (a call on a value whose unit the specification leaves undetermined).**
`round( 10 m / 3 , 2 )`: `denoteF` has no value (a quotient has `Val.unit = none`, so "the
magnitude in the unit the argument is expressed in" is undetermined); the tool rounds in the unit
it displays: `3.33 m`. `DeterminateF` asks for a determined unit of every call argument;
part (2) of `C10_query_nested` describes the tool's answer without that hypothesis. -/
theorem F_finding_call_undetermined_unit :
    (denoteF exRound2).toOption.isNone = true ∧
    (Eval.query nodb (FU.renderQuery exRound2 [])).toOption.map
      (fun r => r.1.map (fun x => x.toOption.map (fun n => (n.value, n.unit)))) =
      some [some (333 / 100, [(.base .Meter, ⟨1, 0⟩)])] := by decide +kernel

/-- **Finding (a non-integer precision is truncated).** `round( 2.55 , 1.5 )`: the specification
has no value (`roundTo` wants an integer number of digits); the tool truncates `1.5` to `1` and
answers `2.6`. `DeterminateF` asks for an integer precision within `i32`. -/
theorem F_finding_precision_truncated :
    (denoteF exRoundFrac).toOption.isNone = true ∧
    (Eval.query nodb (FU.renderQuery exRoundFrac [])).toOption.map
      (fun r => r.1.map (fun x => x.toOption.map (fun n => n.value))) = some [some (13 / 5)] := by
  decide +kernel

/-- The full statement one would like: `C13_query_full` without `DeterminateF`. It is FALSE for
the model (and the program), see `C13_query_full_statement_fails`. -/
def C13_query_full_statement : Prop :=
  ∀ (cfg : Cfg) (e : FExprU) (ws : Layout), WFF e → QueryLayoutOKF e ws → UnitsOKF cfg e →
    ¬ PowRiskF e →
    match denoteF e with
    | .ok v => ∃ r L, Eval.query cfg (FU.renderQuery e ws) = .ok ([.ok r], L) ∧ AgreeF r v
    | .error _ => ∃ k s t L, Eval.query cfg (FU.renderQuery e ws) = .ok ([.error (.err k s t)], L)

theorem C13_query_full_statement_fails : ¬ C13_query_full_statement := by
  intro hfull
  have hwf : WFF exBadMul := by
    refine ⟨⟨(by decide : Literal.WF _), rfl⟩, (by decide : Literal.WF _), ?_, ?_⟩ <;>
      simp [qprioF, BinOp.prio]
  have h := hfull nodb exBadMul [] hwf
    (queryLayoutOKF_nil _ hwf ⟨unitLexOK_written written_degC, trivial⟩)
    ⟨⟨litOKQ_20, Or.inr ⟨_, _, _, rfl, written_degC⟩⟩, (litOKQ_digit 2 (by omega)).1,
      fun h => nomatch h⟩
    (by simp [exBadMul, PowRiskF])
  obtain ⟨h1, h2, _⟩ := F_finding_offset_under_mul
  cases hd : denoteF exBadMul with
  | error x => rw [hd] at h1; simp [Except.toOption] at h1
  | ok v =>
    rw [hd] at h h1
    simp only [Except.toOption, Option.map_some, Option.some.injEq, Prod.mk.injEq] at h1
    obtain ⟨r, L, hq, ha⟩ := h
    rw [hq] at h2
    simp only [Except.toOption, Option.map_some, List.map_cons, List.map_nil, Option.some.injEq,
      List.cons.injEq, Prod.mk.injEq, and_true] at h2
    rcases ha with ha | ⟨s, p, _, hv, _⟩
    · have hsi := congrArg Q.si ha.si
      rw [h1.1] at hsi
      simp only [siQ, h2.1, h2.2] at hsi
      revert hsi
      decide +kernel
    · rw [hv] at h1
      simp at h1

/-!
## Remarks

* **Scope.** Everything `Props/UnifiedQuery` covers, plus: calls nested anywhere (the recursion
  through `Grammar.callArguments` / `Eval.evalArgs`), percent literals (`PERCENTAGE` nodes), lone
  offset temperature scales at leaves and as cast targets. The precision of `round(e, n)` is a
  literal `n` (as in `UQ.CallQ`).
* **Two halves.** `F_query_reference` needs only `WFF`, an admissible layout and `InScopeF` (the
  readers' guards: `LitOK`, `C9Q.UnitRuns`); nothing about the database, about dimensions or about
  which operands may meet. Hence `C06_query_full`, `C18_query_full`, part (1)–(2) of
  `C10_query_nested` and the refusal theorems `C09_query_nested_refused_*` hold for ALL such
  expressions. The link to the SI specification (`C13_query_full`, `C09_query_nested`, part (3) of
  `C10_query_nested`) needs `UnitsOKF cfg` and `DeterminateF`, whose exclusions are pinned above.
* **`DeterminateF`** = `QQ.Determinate` plus: no operand of `+ - * / ^` carries an offset scale
  (`F_finding_offset_under_mul`; `1 °C + 1` likewise: the specification refuses, the tool answers
  `2 °C`, see `Props/C09Query`); a cast is `QQ.CastOK` between values without offset scale, or a
  temperature conversion of a non-plain value (`F_finding_plain_to_offset`); the argument of a call
  has a determined unit (`F_finding_call_undetermined_unit`); a precision is an integer within `i32`
  (`F_finding_precision_truncated`).
* **Temperatures.** `UnitOKF` admits, besides `QQ.UnitOK` units, a lone scale K / °C / °F in any
  table spelling behind any SI prefix (`C9Q.Written`; its exclusions `μ…`, `ccelsius` are pinned in
  `Props/C09Query`). `AgreeT` states the result of a value on an offset scale: the tool's magnitude
  on that very scale, whose kelvin point (`toK`) is the specification's `Val.q.si`.
* **Calls in the specification.** `callVal` = `inUnit` (magnitude in the argument's unit), `roundMag`
  (`Spec.Arith`), `qtyOf` (back to SI): for proportional units this is `UQ.denoteCall`; for a lone
  offset scale the POINT is rounded on that scale (`floor( 98.6 °F to °C )` is the point `37 °C`).
* **Errors.** `FQ.strip` forgets only the byte spans `(s, e)` of `EvalErr.err k s e`; kinds are
  compared exactly, and a panic of the model would be visible (the reference evaluation uses the
  model's own `mulDiv` / `builtinRound`, so `F_query_reference` does not even need their
  no-panic lemmas; `valF_spec` shows no panic occurs in scope).
-/

end Anything.Props.FullQuery
