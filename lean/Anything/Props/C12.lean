import Anything.Model.Lexer
import Anything.Lemmas.ParserLeaves
import Anything.Lemmas.ParserTotal
import Anything.Lemmas.ParserFuel
/-!
# C12 — lexing is lossless (lexer half)

For every input string: every token is non-empty, the lexer terminates, and the
tokens in order cover the input exactly once. Character boundaries are
respected by construction: a token's text is a list of whole characters and its
length in bytes is `utf8Len` of that list.
-/

namespace Anything.Props.C12
open Anything Anything.Lexer

theorem ite_pos {c : Prop} [Decidable c] {a b : Syntax × Nat × Bool}
    (ha : c → 1 ≤ a.2.1) (hb : ¬c → 1 ≤ b.2.1) : 1 ≤ (if c then a else b).2.1 := by
  split
  · exact ha ‹_›
  · exact hb ‹_›

theorem nextNormal_pos (c : Char) (rest : List Char) : 1 ≤ (nextNormal c rest).2.1 := by
  unfold nextNormal
  repeat' (apply ite_pos <;> intro _)
  all_goals try (simp only; omega)
  · -- digit: countNumber false (c :: rest) ≥ 1
    rw [countNumber.eq_def]
    simp only [‹isDigit c = true›, ↓reduceIte]
    omega
  · split <;> simp

theorem nextEscape_pos (c : Char) (rest : List Char) : 1 ≤ (nextEscape c rest).2.1 := by
  unfold nextEscape
  repeat' (apply ite_pos <;> intro _)
  all_goals try (simp only; omega)

theorem nextTok_pos (e : Bool) (c : Char) (rest : List Char) : 1 ≤ (nextTok e c rest).2.1 := by
  unfold nextTok
  split
  · exact nextEscape_pos c rest
  · exact nextNormal_pos c rest

theorem step_cons (e : Bool) (c : Char) (cs : List Char) :
    step e (c :: cs) = some (⟨(nextTok e c cs).1, (c :: cs).take (nextTok e c cs).2.1⟩,
      (c :: cs).drop (nextTok e c cs).2.1, (nextTok e c cs).2.2) := by
  simp [step]

/-- **C12 (progress).** Each lexer step on non-empty input yields a non-empty
token, and token text followed by the remaining input is the input. -/
theorem C12_progress (e : Bool) (s : List Char) (hs : s ≠ []) :
    ∃ t rest e', step e s = some (t, rest, e') ∧ t.text ≠ [] ∧ t.text ++ rest = s ∧
      rest.length < s.length := by
  cases s with
  | nil => exact absurd rfl hs
  | cons c cs =>
    have hpos := nextTok_pos e c cs
    refine ⟨_, _, _, step_cons e c cs, ?_, ?_, ?_⟩
    · simp only [ne_eq, List.take_eq_nil_iff, reduceCtorEq, or_false]
      omega
    · exact List.take_append_drop _ _
    · simp only [List.length_drop, List.length_cons]
      omega

theorem step_nil (e : Bool) : step e [] = none := rfl

theorem lexFuel_cover : ∀ (fuel : Nat) (e : Bool) (s : List Char), s.length ≤ fuel →
    (lexFuel fuel e s).flatMap Token.text = s := by
  intro fuel
  induction fuel with
  | zero =>
    intro e s h
    have : s = [] := List.eq_nil_of_length_eq_zero (by omega)
    subst this; rfl
  | succ n ih =>
    intro e s h
    cases hs : s with
    | nil => simp [lexFuel, step_nil]
    | cons c cs =>
      obtain ⟨t, rest, e', hstep, _, hcat, hlt⟩ := C12_progress e (c :: cs) (by simp)
      simp only [lexFuel, hstep, List.flatMap_cons]
      rw [ih e' rest (by rw [hs] at h; simp only [List.length_cons] at h hlt ⊢; omega)]
      exact hcat

/-- **C12 (cover).** The tokens of any string, concatenated in order, are the string. -/
theorem C12_cover (s : List Char) : (lex s).flatMap Token.text = s :=
  lexFuel_cover s.length false s (Nat.le_refl _)

theorem lexFuel_nonempty : ∀ (fuel : Nat) (e : Bool) (s : List Char),
    ∀ t ∈ lexFuel fuel e s, t.text ≠ [] := by
  intro fuel
  induction fuel with
  | zero => intro e s t ht; simp [lexFuel] at ht
  | succ n ih =>
    intro e s t ht
    cases hs : s with
    | nil => rw [hs] at ht; simp [lexFuel, step_nil] at ht
    | cons c cs =>
      obtain ⟨t0, rest, e', hstep, hne, _, _⟩ := C12_progress e (c :: cs) (by simp)
      rw [hs] at ht
      simp only [lexFuel, hstep, List.mem_cons] at ht
      rcases ht with rfl | ht
      · exact hne
      · exact ih e' rest t ht

/-- **C12 (non-empty tokens).** -/
theorem C12_tokens_nonempty (s : List Char) : ∀ t ∈ lex s, t.text ≠ [] :=
  lexFuel_nonempty s.length false s

/-- **C12 (byte accounting).** Token byte lengths add up to the input's UTF-8 length, so
every token boundary is a sum of whole-character sizes. -/
theorem C12_bytes (s : List Char) : ((lex s).map Token.len).sum = utf8Len s := by
  have h := C12_cover s
  have gen : ∀ ts : List Token, (ts.map Token.len).sum = utf8Len (ts.flatMap Token.text) := by
    intro ts
    induction ts with
    | nil => rfl
    | cons t ts ih => simp [Token.len, utf8Len_append, ih]
  rw [gen, h]

/-- Non-vacuity: a concrete multi-byte input. -/
example : (lex " 1 + 2 °C".toList).map (fun t => (t.kind, t.len)) =
    [(.WHITESPACE, 1), (.NUMBER, 1), (.WHITESPACE, 1), (.PLUS, 1), (.WHITESPACE, 1), (.NUMBER, 1),
     (.WHITESPACE, 1), (.WORD, 3)] := by
  decide +kernel

/-!
# C12 — parsing is lossless (parser half)

`stream s` (`Lemmas/ParserLeaves.lean`) is the leaves already in the builder's forest
followed by the tokens still in the buffer; every parser primitive and every grammar
function keeps it unchanged whenever it succeeds, and `root` only stops on an empty buffer.
Hence every token of the input ends up as exactly one leaf, in order.

The kind `EOF` is what `Parser::nth` answers past the end of the buffer. A token list that
*contains* a token of that kind makes `root` stop early (`C12_leaves_needs_noEOF`), so the
statement over all token lists carries the hypothesis that no token has kind `EOF`; the lexer
never produces one (`C12_lex_noEOF`), so the statement over all source strings is unconditional.

Parsing is also total (`C12_parse_total`, for every token list, with or without `EOF` tokens):
the builder is never asked to close a checkpoint it cannot find and `fuelFor` fuel is enough;
more fuel never changes the result (`C12_fuel_irrelevant`). `C12_lossless` puts the halves
together: every string parses to a tree whose leaves are its tokens and whose text is the string.
-/

open Anything.Grammar Anything.PLeaves

/-- **C12 (stream invariant).** Running the root grammar rule from *any* parser state, with any
fuel, never loses, duplicates or reorders a token: leaves built so far followed by the
remaining buffer is the same sequence before and after. -/
theorem C12_root_stream (fuel : Nat) (s s' : PState) (h : root fuel s = .ok ((), s')) :
    Tree.leavesList s'.b.forest ++ s'.toks = Tree.leavesList s.b.forest ++ s.toks :=
  pres_root fuel s () s' h

/-- **C12 (lexer kinds).** No lexed token has the kind `EOF`. -/
theorem C12_lex_noEOF (src : List Char) : ∀ t ∈ lex src, t.kind ≠ .EOF := lex_noEOF src

/-- **C12 (leaves, unconditional form).** For every token list whatsoever the leaves of a
successful parse are a prefix of the input tokens (nothing is invented or reordered). -/
theorem C12_leaves_prefix (toks : List Token) (forest : List Tree)
    (h : parseRootToks toks = .ok forest) : Tree.leavesList forest <+: toks := by
  unfold parseRootToks at h
  split at h
  · rename_i u s hr
    simp only [Except.ok.injEq] at h
    have hp := pres_root _ _ _ _ hr
    simp only [stream, Tree.leavesList, List.nil_append] at hp
    exact ⟨s.toks, h ▸ hp⟩
  · cases h

/-- **C12 (leaves).** For every token list none of whose tokens claims the kind `EOF`, the
leaves of the parsed tree are exactly the tokens, in order. -/
theorem C12_leaves (toks : List Token) (forest : List Tree) (hno : ∀ t ∈ toks, t.kind ≠ .EOF)
    (h : parseRootToks toks = .ok forest) : Tree.leavesList forest = toks :=
  parseRootToks_leaves toks forest h hno

/-- The hypothesis of `C12_leaves` cannot be dropped: a token of kind `EOF` ends the model's
root loop with that token (and everything after it) still in the buffer. -/
theorem C12_leaves_needs_noEOF :
    ¬ ∀ toks forest, parseRootToks toks = .ok forest → Tree.leavesList forest = toks := by
  intro h
  have h1 := h [⟨.EOF, ['x']⟩, ⟨.WORD, ['a']⟩] [] rfl
  simp [Tree.leavesList] at h1

/-- **C12 (parse leaves).** The leaves of the tree parsed from a source string are exactly
the lexer's tokens, in order. -/
theorem C12_parse_leaves (src : List Char) (forest : List Tree)
    (h : parseRoot src = .ok forest) : Tree.leavesList forest = lex src :=
  C12_leaves (lex src) forest (C12_lex_noEOF src) h

/-- **C12 (parse cover).** The leaf texts of the parsed tree, concatenated in order, are the
input: every character of the query is attributed to exactly one leaf. -/
theorem C12_parse_cover (src : List Char) (forest : List Tree)
    (h : parseRoot src = .ok forest) : (Tree.leavesList forest).flatMap Token.text = src := by
  rw [C12_parse_leaves src forest h]; exact C12_cover src

/-- **C12 (tree text).** The source text covered by the forest (`Tree.textList`, the model of
`&source[node.span()]`) is the whole input. -/
theorem C12_parse_text (src : List Char) (forest : List Tree)
    (h : parseRoot src = .ok forest) : Tree.textList forest = src := by
  rw [Tree.textList_eq_leaves]; exact C12_parse_cover src forest h

/-- **C12 (parse bytes).** Leaf byte lengths add up to the UTF-8 length of the input. -/
theorem C12_parse_bytes (src : List Char) (forest : List Tree)
    (h : parseRoot src = .ok forest) :
    ((Tree.leavesList forest).map Token.len).sum = utf8Len src := by
  rw [C12_parse_leaves src forest h]; exact C12_bytes src

/-- **C12 (parse total).** Parsing never fails, for every token list whatsoever: the builder
is never asked to close a checkpoint it cannot find (`BErr.missingNode`, `BErr.nested`) and
the fuel `fuelFor toks` always suffices (`BErr.fuel`). The proof (`Lemmas/ParserTotal.lean`)
carries the invariant that the checkpoints still in use point at top-level trees in document
order, and the measure `4 * (tokens left) + constant ≤ fuel` through the mutually recursive
grammar. -/
theorem C12_parse_total (toks : List Token) : ∃ forest, parseRootToks toks = .ok forest :=
  PTotal.parseRootToks_ok toks

/-- `C12_parse_total` in the form "never `.error`". -/
theorem C12_parse_never_error (toks : List Token) (e : BErr) : parseRootToks toks ≠ .error e := by
  obtain ⟨forest, h⟩ := C12_parse_total toks
  rw [h]; exact fun hh => by cases hh

/-- **C12 (fuel is irrelevant).** The fuel of the model is only a device to make the grammar's
recursion structural: with any amount of fuel at least `fuelFor toks` the root rule returns
exactly what it returns with `fuelFor toks` (the same forest, the same builder state). -/
theorem C12_fuel_irrelevant (toks : List Token) (fuel : Nat) (h : fuelFor toks ≤ fuel) :
    root fuel { toks := toks } = root (fuelFor toks) { toks := toks } :=
  PFuel.root_fuel_irrelevant toks fuel h

/-- **C12 (lossless).** Every source string parses, and the resulting tree has exactly the
lexer's tokens as leaves, in order, covering the input text exactly once. -/
theorem C12_lossless (src : List Char) : ∃ forest, parseRoot src = .ok forest ∧
    Tree.leavesList forest = lex src ∧
    (Tree.leavesList forest).flatMap Token.text = src ∧ Tree.textList forest = src := by
  obtain ⟨forest, h⟩ := C12_parse_total (lex src)
  exact ⟨forest, h, C12_parse_leaves src forest h, C12_parse_cover src forest h,
    C12_parse_text src forest h⟩

/-- Non-vacuity: a concrete query with nesting, a function call, a unit cast, an error
recovery and a multi-byte character parses successfully (so the hypotheses of
`C12_parse_leaves` … `C12_parse_bytes` are satisfiable) and its tree is not flat. -/
example : (parseRoot "1 + {a b} * foo(2, 3m) to °C ) x".toList).toOption.map
    (fun forest => ((Tree.leavesList forest).length, forest.length)) = some (28, 1) := by
  decide +kernel

/-- Non-vacuity of `C12_leaves` on a hand-made token list which the lexer cannot produce. -/
example : ((parseRootToks [⟨.WORD, []⟩, ⟨.OPEN_PAREN, ['(']⟩, ⟨.CARET, []⟩]).toOption.map
      (fun forest => (Tree.leavesList forest).length) = some 3) ∧
    (∀ t ∈ [(⟨.WORD, []⟩ : Token), ⟨.OPEN_PAREN, ['(']⟩, ⟨.CARET, []⟩], t.kind ≠ .EOF) := by
  decide +kernel

end Anything.Props.C12
