import Anything.Model.Lexer
/-!
# C12 — lexing is lossless (lexer half)

For every input string: every token is non-empty, the lexer terminates, and the
tokens in order cover the input exactly once. Character boundaries are
respected by construction: a token's text is a list of whole characters and its
length in bytes is `utf8Len` of that list.
-/

namespace Anything.Props.C12
open Anything Anything.Lexer

theorem ite_pos {c : Prop} [Decidable c] {a b : Syntax × Nat × Bool}
    (ha : c → 1 ≤ a.2.1) (hb : ¬c → 1 ≤ b.2.1) : 1 ≤ (if c then a else b).2.1 := by
  split
  · exact ha ‹_›
  · exact hb ‹_›

theorem nextNormal_pos (c : Char) (rest : List Char) : 1 ≤ (nextNormal c rest).2.1 := by
  unfold nextNormal
  repeat' (apply ite_pos <;> intro _)
  all_goals try (simp only; omega)
  · -- digit: countNumber false (c :: rest) ≥ 1
    rw [countNumber.eq_def]
    simp only [‹isDigit c = true›, ↓reduceIte]
    omega
  · split <;> simp

theorem nextEscape_pos (c : Char) (rest : List Char) : 1 ≤ (nextEscape c rest).2.1 := by
  unfold nextEscape
  repeat' (apply ite_pos <;> intro _)
  all_goals try (simp only; omega)

theorem nextTok_pos (e : Bool) (c : Char) (rest : List Char) : 1 ≤ (nextTok e c rest).2.1 := by
  unfold nextTok
  split
  · exact nextEscape_pos c rest
  · exact nextNormal_pos c rest

theorem step_cons (e : Bool) (c : Char) (cs : List Char) :
    step e (c :: cs) = some (⟨(nextTok e c cs).1, (c :: cs).take (nextTok e c cs).2.1⟩,
      (c :: cs).drop (nextTok e c cs).2.1, (nextTok e c cs).2.2) := by
  simp [step]

/-- **C12 (progress).** Each lexer step on non-empty input yields a non-empty
token, and token text followed by the remaining input is the input. -/
theorem C12_progress (e : Bool) (s : List Char) (hs : s ≠ []) :
    ∃ t rest e', step e s = some (t, rest, e') ∧ t.text ≠ [] ∧ t.text ++ rest = s ∧
      rest.length < s.length := by
  cases s with
  | nil => exact absurd rfl hs
  | cons c cs =>
    have hpos := nextTok_pos e c cs
    refine ⟨_, _, _, step_cons e c cs, ?_, ?_, ?_⟩
    · simp only [ne_eq, List.take_eq_nil_iff, reduceCtorEq, or_false]
      omega
    · exact List.take_append_drop _ _
    · simp only [List.length_drop, List.length_cons]
      omega

theorem step_nil (e : Bool) : step e [] = none := rfl

theorem lexFuel_cover : ∀ (fuel : Nat) (e : Bool) (s : List Char), s.length ≤ fuel →
    (lexFuel fuel e s).flatMap Token.text = s := by
  intro fuel
  induction fuel with
  | zero =>
    intro e s h
    have : s = [] := List.eq_nil_of_length_eq_zero (by omega)
    subst this; rfl
  | succ n ih =>
    intro e s h
    cases hs : s with
    | nil => simp [lexFuel, step_nil]
    | cons c cs =>
      obtain ⟨t, rest, e', hstep, _, hcat, hlt⟩ := C12_progress e (c :: cs) (by simp)
      simp only [lexFuel, hstep, List.flatMap_cons]
      rw [ih e' rest (by rw [hs] at h; simp only [List.length_cons] at h hlt ⊢; omega)]
      exact hcat

/-- **C12 (cover).** The tokens of any string, concatenated in order, are the string. -/
theorem C12_cover (s : List Char) : (lex s).flatMap Token.text = s :=
  lexFuel_cover s.length false s (Nat.le_refl _)

theorem lexFuel_nonempty : ∀ (fuel : Nat) (e : Bool) (s : List Char),
    ∀ t ∈ lexFuel fuel e s, t.text ≠ [] := by
  intro fuel
  induction fuel with
  | zero => intro e s t ht; simp [lexFuel] at ht
  | succ n ih =>
    intro e s t ht
    cases hs : s with
    | nil => rw [hs] at ht; simp [lexFuel, step_nil] at ht
    | cons c cs =>
      obtain ⟨t0, rest, e', hstep, hne, _, _⟩ := C12_progress e (c :: cs) (by simp)
      rw [hs] at ht
      simp only [lexFuel, hstep, List.mem_cons] at ht
      rcases ht with rfl | ht
      · exact hne
      · exact ih e' rest t ht

/-- **C12 (non-empty tokens).** -/
theorem C12_tokens_nonempty (s : List Char) : ∀ t ∈ lex s, t.text ≠ [] :=
  lexFuel_nonempty s.length false s

/-- **C12 (byte accounting).** Token byte lengths add up to the input's UTF-8 length, so
every token boundary is a sum of whole-character sizes. -/
theorem C12_bytes (s : List Char) : ((lex s).map Token.len).sum = utf8Len s := by
  have h := C12_cover s
  have gen : ∀ ts : List Token, (ts.map Token.len).sum = utf8Len (ts.flatMap Token.text) := by
    intro ts
    induction ts with
    | nil => rfl
    | cons t ts ih => simp [Token.len, utf8Len_append, ih]
  rw [gen, h]

/-- Non-vacuity: a concrete multi-byte input. -/
example : (lex " 1 + 2 °C".toList).map (fun t => (t.kind, t.len)) =
    [(.WHITESPACE, 1), (.NUMBER, 1), (.WHITESPACE, 1), (.PLUS, 1), (.WHITESPACE, 1), (.NUMBER, 1),
     (.WHITESPACE, 1), (.WORD, 3)] := by
  decide +kernel

end Anything.Props.C12
