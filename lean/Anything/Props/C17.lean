import Anything.Model.Cbor
namespace Anything.Props.C17
theorem C17_placeholder : True := trivial
end Anything.Props.C17
