import Anything.Lemmas.CborCodec
import Anything.Lemmas.CborJson
import Anything.Spec.PinnedIds
/-!
# C17 — stored facts and units survive serialisation unchanged

Model: `Model/Cbor.lean`. Three layers, each proved for **all** values (unbounded
integers, compounds of any length, any constant):

* **value level** — `decX (encX x) = some x` for the codecs `X → CVal` of `BigInt`,
  `Ratio<BigInt>`, `Unit`, `State`, `Compound`, `Constant`;
* **byte level** — `decodeAll (encode v) = some v` for every `CVal` whose integer
  arguments and lengths fit the 64-bit CBOR heads (`Encodable`), with the three
  ingredients `ofBe ∘ beBytes`, `readHead ∘ head`, `fromUtf8 ∘ utf8` (the last one for
  every list of characters, no validity hypothesis);
* **composition** — bytes → `CVal` → value gives back the value.

Then the identifier table (`Generated.units`, `Generated.idConsts`) and the JSON
printer. Helper lemmas: `Lemmas/CborValue.lean`, `Lemmas/CborBytes.lean`,
`Lemmas/CborCodec.lean`, `Lemmas/CborJson.lean`.

Hypotheses are exactly the ones needed; for each there is a theorem or example
showing that dropping it makes the statement false (`C17_unit_iff`,
`C17_compound_iff`, `C17_bytes_bound_needed`, `C17_cInt_encodable_iff`).
-/

namespace Anything.Props.C17
open Anything Anything.Cbor

/-! ## Value level -/

/-- **C17 (big integers).** Sign and base-2^32 limbs decode to the same integer, for every `Int`. -/
theorem C17_bigint (i : Int) : decBigInt (encBigInt i) = some i := decBigInt_encBigInt i

/-- The limbs written are canonical: below `2^32` and they denote the absolute value. -/
theorem C17_limbs (n : Nat) : (∀ l ∈ toLimbs n, l < 2 ^ 32) ∧ ofLimbs (toLimbs n) = n :=
  ⟨toLimbs_lt n, ofLimbs_toLimbs n⟩

example : decBigInt (encBigInt (-(2 ^ 100) - 7)) = some (-(2 ^ 100) - 7) := C17_bigint _
example : toLimbs (2 ^ 64 + 5) = [5, 0, 1] := by decide

/-- **C17 (rationals).** Every rational (numerator and denominator unbounded). -/
theorem C17_rat (r : Rat) : decRat (encRat r) = some r := decRat_encRat r

example : decRat (encRat (-5 / 3)) = some (-5 / 3) := C17_rat _

/-- Well-formedness of unit keys (`Cbor.UnitOk`): every base unit; a derived key iff its id
is in the generated table. -/
example (b : Base) : UnitOk (.base b) = True := rfl
example (id : Nat) : UnitOk (.derived id) = ∃ u ∈ Generated.units, u.id = id := rfl

/-- **C17 (units).** Supported unit keys round-trip. -/
theorem C17_unit (u : UnitKey) (h : UnitOk u) : decUnit (encUnit u) = some u := decUnit_encUnit u h

/-- … and *only* those: the decoder refuses an id that is not in the table. -/
theorem C17_unit_iff (u : UnitKey) : decUnit (encUnit u) = some u ↔ UnitOk u := decUnit_encUnit_iff u

/-- The table satisfies the predicate: all eight base units and all derived units of the table. -/
theorem C17_unit_table :
    (∀ b : Base, UnitOk (.base b)) ∧ (∀ u ∈ Generated.units, UnitOk (.derived u.id)) :=
  ⟨fun _ => trivial, fun u hu => ⟨u, hu, rfl⟩⟩

example : UnitOk (.derived 353022001) := by decide +kernel   -- newton
example : ¬ UnitOk (.derived 7) := by decide +kernel
example : decUnit (encUnit (.derived 7)) = none := by decide +kernel

/-- **C17 (state).** Power and prefix of a compound entry, any integers. -/
theorem C17_state (s : State) : decState (encState s) = some s := decState_encState s

/-- **C17 (compounds).** Any association list of supported keys — no sortedness or
distinctness is needed, because the model decoder returns the entries in file order
(`#eval` check: the unsorted list with a duplicate key
`[(Second,⟨1,0⟩), (D353022001,⟨-2,3⟩), (Second,⟨5,-3⟩)]` round-trips; in the Rust a
`BTreeMap` can never be in that shape). -/
theorem C17_compound (c : Compound) (h : CompoundOk c) : decCompound (encCompound c) = some c :=
  decCompound_encCompound c h

/-- Supported keys are necessary as well. -/
theorem C17_compound_iff (c : Compound) : decCompound (encCompound c) = some c ↔ CompoundOk c :=
  decCompound_encCompound_iff c

/-- A kilo-newton-like compound with a prefix and a negative power. -/
def exCompound : Compound := [(.derived 353022001, ⟨-2, 3⟩), (.base .Second, ⟨1, 0⟩)]

theorem C17_exCompound_ok : ∀ e ∈ exCompound, UnitOk e.1 ∧ StateOk e.2 := by decide +kernel

example : CompoundOk exCompound := fun e he => (C17_exCompound_ok e he).1
example : decCompound (encCompound [(.base .Second, ⟨1, 0⟩), (.derived 353022001, ⟨-2, 3⟩),
    (.base .Second, ⟨5, -3⟩)]) = some [(.base .Second, ⟨1, 0⟩), (.derived 353022001, ⟨-2, 3⟩),
    (.base .Second, ⟨5, -3⟩)] := by decide +kernel

/-- **C17 (constants).** Every constant whose unit uses supported keys: any source, any
tokens, any description, any rational value. This covers every shipped constant (their
units are built from table units). -/
theorem C17_constant (c : Constant) (h : CompoundOk c.unit) : decConstant (encConstant c) = some c :=
  decConstant_encConstant c h

def exConstant : Constant :=
  { source := some 3, tokens := ["speed".toList, "light".toList], description := "speed of light".toList,
    value := 299792458, unit := [(.base .Meter, ⟨1, 0⟩), (.base .Second, ⟨-1, 0⟩)] }

example : CompoundOk exConstant.unit := by intro e he; cases e with | mk u s => cases u <;> simp_all [exConstant, UnitOk]

/-! ## Byte level -/

/-- Big-endian arguments. -/
theorem C17_ofBe_beBytes (k n : Nat) (h : n < 256 ^ k) : ofBe (beBytes k n) = n := ofBe_beBytes k n h

/-- Shortest-form heads: any major type, any 64-bit argument, any trailing bytes. -/
theorem C17_readHead (m n : Nat) (rest : List Nat) (hm : m < 8) (hn : n < 2 ^ 64) :
    readHead (head m n ++ rest) = some (m, n, rest) := readHead_head m n rest hm hn

example : readHead (head 5 70000 ++ [1, 2]) = some (5, 70000, [1, 2]) := by decide

/-- Texts: UTF-8 encoding followed by validation and decoding is the identity on **every**
list of characters (so `Encodable` carries no validity condition on texts). -/
theorem C17_utf8 (s : List Char) : fromUtf8 (utf8 s) = some s := fromUtf8_utf8 s

/-- `Encodable v` (defined in `Lemmas/CborBytes.lean`) unfolds to: every `uint`/`nint`
argument, every byte-string, text (in UTF-8 bytes), array and map length is `< 2^64`,
recursively. -/
example (n : Nat) : Encodable (.uint n) = (n < 2 ^ 64) := rfl
example (s : List Char) : Encodable (.text s) = ((utf8 s).length < 2 ^ 64) := rfl
example (xs : List CVal) : Encodable (.array xs) ↔ xs.length < 2 ^ 64 ∧ ∀ x ∈ xs, Encodable x := by
  rw [← encodableList_iff]; rfl
example (kvs : List (CVal × CVal)) :
    Encodable (.map kvs) ↔ kvs.length < 2 ^ 64 ∧ ∀ e ∈ kvs, Encodable e.1 ∧ Encodable e.2 := by
  rw [← encodablePairs_iff]; rfl

/-- The decoder reads one encoded item off the front of any byte stream, given fuel at
least twice its length. -/
theorem C17_decode (v : CVal) (hv : Encodable v) (fuel : Nat) (rest : List Nat)
    (hf : 2 * (encode v).length ≤ fuel) : decode fuel (encode v ++ rest) = some (v, rest) :=
  decode_encode v hv fuel rest hf

/-- **C17 (bytes).** Every encodable CBOR value decodes back from its bytes. -/
theorem C17_bytes (v : CVal) (hv : Encodable v) : decodeAll (encode v) = some v := decodeAll_encode v hv

/-- Consequently the bytes determine the value: `encode` is injective on encodable values. -/
theorem C17_encode_injective (v w : CVal) (hv : Encodable v) (hw : Encodable w)
    (h : encode v = encode w) : v = w := by
  have := C17_bytes v hv
  rw [h, C17_bytes w hw] at this
  exact (Option.some.inj this).symm

/-- The 64-bit bound is needed: `2^64` is written with a truncated head and reads back as `0`. -/
theorem C17_bytes_bound_needed : decodeAll (encode (.uint (2 ^ 64))) = some (.uint 0) := by
  rfl

example : Encodable (.map [(.text ['a', 'é'], .array [.uint 300, .nint 0, .null, .bytes [1, 2]])]) := by
  refine ⟨by decide, encodable_text _ (by decide), ⟨by decide, ?_⟩, trivial⟩
  exact ⟨show 300 < 2 ^ 64 by decide, show 0 < 2 ^ 64 by decide, trivial,
    show [1, 2].length < 2 ^ 64 by decide, trivial⟩

/-! ## Composition: bytes → CBOR value → value -/

/-- Small integers (`i8` sign, `i32` power and prefix): encodable iff in `[-2^64, 2^64)`. -/
theorem C17_cInt_encodable_iff (i : Int) : Encodable (cInt i) ↔ (-2 ^ 64 ≤ i ∧ i < 2 ^ 64) :=
  encodable_cInt_iff i

/-- **C17 (big integers, bytes).** `LimbsOk i` says that the number of limbs fits an array
head, i.e. `|i| < (2^32)^k` for some `k < 2^64` (`limbsOk_of_lt`); an integer violating
it would need more than 64 EiB. -/
theorem C17_bigint_bytes (i : Int) (h : LimbsOk i) :
    (decodeAll (encode (encBigInt i))).bind decBigInt = some i := by
  rw [C17_bytes _ (encodable_encBigInt i h)]; exact C17_bigint i

/-- **C17 (rationals, bytes).** -/
theorem C17_rat_bytes (r : Rat) (hn : LimbsOk r.num) (hd : LimbsOk r.den) :
    (decodeAll (encode (encRat r))).bind decRat = some r := by
  rw [C17_bytes _ (encodable_encRat r hn hd)]; exact C17_rat r

example : LimbsOk (-(2 ^ 100) - 7) := limbsOk_of_lt _ 4 (by decide) (by decide)
example : LimbsOk ((-5 / 3 : Rat).num) ∧ LimbsOk ((-5 / 3 : Rat).den) :=
  ⟨limbsOk_of_lt _ 1 (by decide) (by decide +kernel), limbsOk_of_lt _ 1 (by decide) (by decide +kernel)⟩

/-- **C17 (units, bytes).** -/
theorem C17_unit_bytes (u : UnitKey) (h : UnitOk u) :
    (decodeAll (encode (encUnit u))).bind decUnit = some u := by
  rw [C17_bytes _ (encodable_encUnit u h)]; exact C17_unit u h

/-- **C17 (state, bytes).** `StateOk`: both fields in `[-2^64, 2^64)` — the Rust fields are `i32`. -/
theorem C17_state_bytes (s : State) (h : StateOk s) :
    (decodeAll (encode (encState s))).bind decState = some s := by
  rw [C17_bytes _ (encodable_encState s h)]; exact C17_state s

/-- **C17 (compounds, bytes).** `CompoundEnc c`: fewer than `2^64` entries, each with a
supported key and a machine-range state. -/
theorem C17_compound_bytes (c : Compound) (h : CompoundEnc c) :
    (decodeAll (encode (encCompound c))).bind decCompound = some c := by
  rw [C17_bytes _ (encodable_encCompound c h)]; exact C17_compound c h.ok

example : CompoundEnc exCompound := ⟨by decide, C17_exCompound_ok⟩

/-- **C17 (constants, bytes).** `ConstantEnc c`: source below `2^64` (a `u64`), fewer than
`2^64` tokens, tokens and description shorter than `2^62` characters, value with
`LimbsOk` numerator and denominator, unit with `CompoundEnc`. -/
theorem C17_constant_bytes (c : Constant) (h : ConstantEnc c) :
    (decodeAll (encode (encConstant c))).bind decConstant = some c := by
  rw [C17_bytes _ (encodable_encConstant c h)]; exact C17_constant c h.unit.ok

/-- The texts the codecs emit themselves (field names, the `Derived` tag, base-unit
names) are all short, hence encodable. -/
theorem C17_emitted_texts : ∀ s ∈ emittedTexts, Encodable (str s) := encodable_str

/-! ## Identifiers -/

/-- **C17 (ids unique).** The identifiers of the derived units are pairwise distinct. -/
theorem C17_ids_unique : (Generated.units.map (·.id)).Nodup := by decide +kernel

/-- Every identifier is a `u32`. -/
theorem C17_ids_u32 : ∀ u ∈ Generated.units, u.id < 2 ^ 32 := units_id_lt

/-- **C17 (ids decode).** Looking an identifier up in the table (`id_to_derived`, model
`Units.find?`) gives back the very same unit definition. -/
theorem C17_ids_lookup : ∀ u ∈ Generated.units, Units.find? u.id = some u :=
  fun u hu => find?_id_of_nodup _ C17_ids_unique u hu

/-- **C17 (ids decode, codec).** Every derived unit of the table is written as its
identifier and read back as the same unit key — at the value level and through bytes. -/
theorem C17_ids_decode : ∀ u ∈ Generated.units,
    decUnit (encUnit (.derived u.id)) = some (.derived u.id) ∧
    (decodeAll (encode (encUnit (.derived u.id)))).bind decUnit = some (.derived u.id) :=
  fun u hu => ⟨C17_unit _ ⟨u, hu, rfl⟩, C17_unit_bytes _ ⟨u, hu, rfl⟩⟩

/-- The named constants of `ids.rs` are pairwise distinct and are exactly the
identifiers of the table. -/
theorem C17_idConsts :
    (Generated.idConsts.map (·.2)).Nodup ∧
    (∀ c ∈ Generated.idConsts, ∃ u ∈ Generated.units, u.id = c.2) ∧
    (∀ u ∈ Generated.units, ∃ c ∈ Generated.idConsts, c.2 = u.id) := by
  refine ⟨by decide +kernel, by decide +kernel, by decide +kernel⟩

example : Generated.units.length = 78 := by decide +kernel

/-! ## JSON

The model contains the JSON *printer* of a rational only (`jsonRat`, the nested-array
form `[[sign,[limbs…]],[sign,[limbs…]]]`); reading JSON back is exercised by the
differential harness against the real `serde_json`. What is proved here: the printed
text determines the rational. -/

/-- **C17 (JSON).** Two rationals with the same JSON text are equal. -/
theorem C17_json_rat_injective (r s : Rat) (h : jsonRat r = jsonRat s) : r = s := jsonRat_inj h

/-- The same for the big-integer component, inside any context. -/
theorem C17_json_bigint_unique (i j : Int) (r₁ r₂ : List Char)
    (h : jsonBigInt i ++ r₁ = jsonBigInt j ++ r₂) : i = j ∧ r₁ = r₂ := jsonBigInt_unique i j r₁ r₂ h

example : String.ofList (jsonRat (-5 / 3)) = "[[-1,[5]],[1,[3]]]" := by decide +kernel

/-! ### Stable identifiers: a unit expression written by one build reads identically in the next -/

/-- **C17 (identifiers are stable).** Every identifier recorded at the pinned commit
(`Spec/PinnedIds.lean`: identifier and display name of each derived unit) still denotes
the unit of that name in the table extracted from the current source — so bytes written
by the pinned build, the shipped database included, keep their meaning. Units may be
added; an identifier may not be re-used or moved. -/
theorem C17_ids_stable :
    Anything.Spec.Pinned.ids.all (fun p =>
      (Anything.Generated.units.find? (fun u => u.id == p.1)).map (·.sing) == some p.2) = true := by
  decide +kernel

end Anything.Props.C17
