import Anything.Model.Cbor
namespace Anything.Props.C16
theorem C16_placeholder : True := trivial
end Anything.Props.C16
