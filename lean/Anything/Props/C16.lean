import Anything.Lemmas.Index
import Mathlib.Data.List.Perm.Lattice
/-!
# C16 — every shipped fact can be found by its own words

The logic of the repository around the ranking is proved; the ranking itself (tantivy's
BM25 in `f32`) is outside any theorem and enters as the explicit *separation*
hypothesis of `C16_meta`, which the check establishes per run by exhaustive execution on
all shipped constants (labelled partial).

* `C16_one_lookup`: for EVERY shipped constant whose words can be typed, the query made of
  exactly those words performs exactly one lookup, of exactly that phrase (kernel-checked
  over the table regenerated from the shipped data: lexer, parser and evaluator models
  run on each phrase).
* `C16_query_terms`: the terms the query produces are exactly the terms indexed for the
  constant (same analyzer on both sides), also with the words permuted; none is lost
  (`C16_terms_nonempty`), so the constant itself always matches.
* `C16_meta`: top-1 of any index returns a carrier of all the words as soon as every
  carrier outscores every non-carrier.
-/

namespace Anything.Props.C16
open Anything Anything.Index

/-- **C16 (analyzer knobs the theorems rely on).** Prefix n-grams from length one, lower
casing, one analyzer registered under the name the field uses, queries parsed against the
field that is indexed, the single top document is the answer. -/
theorem C16_db_knobs :
    Generated.Db.ngramMin = 1 ∧ Generated.Db.ngramPrefixOnly = true ∧ Generated.Db.ngramMin ≤ Generated.Db.ngramMax ∧
    Generated.Db.analyzerRegisteredForField = true ∧ Generated.Db.queryFieldIsIndexField = true ∧
    Generated.Db.topLimit = 1 ∧ Generated.Db.fieldNorms = true := by
  decide

/-- **C16 (one lookup, with exactly the words).** For every shipped constant in scope
(`typeable`: the lexer model reads its words as WORD / NUMBER tokens separated by blanks,
the first a WORD), evaluating its words as a query against a database that knows ONLY that
phrase yields that fact and reports that phrase — so the evaluator looked up exactly this
phrase and nothing else. -/
theorem C16_one_lookup :
    Generated.factChunks.all (fun c => c.all (fun r => !typeable r || oneLookup r)) = true := by
  decide +kernel

/-- How many shipped constants are in scope (informational; re-checked when the data
changes). -/
theorem C16_scope : (Generated.facts.filter typeable).length = 777 ∧ Generated.facts.length = 878 := by
  decide +kernel

/-- A word without blanks. -/
def BlankFree (w : List Char) : Prop := w ≠ [] ∧ ' ' ∉ w

theorem splitBlanks_blankFree (w : List Char) (h : ' ' ∉ w) (hne : w ≠ []) : splitBlanks w = [w] := by
  induction w with
  | nil => exact absurd rfl hne
  | cons c cs ih =>
    have hc : c ≠ ' ' := fun e => h (by simp [e])
    have hcs : ' ' ∉ cs := fun e => h (List.mem_cons_of_mem _ e)
    simp only [splitBlanks, hc, ↓reduceIte]
    cases cs with
    | nil => simp [splitBlanks]
    | cons c' cs' => rw [ih hcs (by simp)]

theorem splitBlanks_append (w : List Char) (h : ' ' ∉ w) (hne : w ≠ []) (rest : List Char) :
    splitBlanks (w ++ ' ' :: rest) = w :: splitBlanks rest := by
  induction w with
  | nil => exact absurd rfl hne
  | cons c cs ih =>
    have hc : c ≠ ' ' := fun e => h (by simp [e])
    have hcs : ' ' ∉ cs := fun e => h (List.mem_cons_of_mem _ e)
    cases cs with
    | nil => simp [splitBlanks, hc]
    | cons c' cs' =>
      have := ih hcs (by simp)
      simp only [List.cons_append, splitBlanks, hc, ↓reduceIte] at this ⊢
      rw [this]

/-- The words of the phrase made of blank-free words are those words. -/
theorem words_joinWords (ws : List (List Char)) (h : ∀ w ∈ ws, BlankFree w) : words (joinWords ws) = ws := by
  unfold words
  induction ws with
  | nil => simp [joinWords, splitBlanks]
  | cons w rest ih =>
    obtain ⟨hne, hb⟩ := h w (by simp)
    cases rest with
    | nil => simp [joinWords, splitBlanks_blankFree w hb hne, hne]
    | cons w' rest' =>
      have ih' := ih (fun x hx => h x (List.mem_cons_of_mem _ hx))
      simp only [joinWords, List.append_assoc, List.singleton_append]
      rw [splitBlanks_append w hb hne, List.filter_cons]
      simp only [ne_eq, hne, not_false_eq_true, decide_true, ↓reduceIte]
      rw [ih']

/-- **C16 (the query's terms are the constant's indexed terms).** -/
theorem C16_query_terms (d : Doc) (h : ∀ w ∈ d.tokens, BlankFree w) :
    queryTerms (joinWords d.tokens) = docTerms d := by
  unfold queryTerms docTerms
  rw [words_joinWords d.tokens h]

/-- **C16 (with the words permuted).** Every term of the permuted query is an indexed term
of the constant, and every indexed term is asked for. -/
theorem C16_query_terms_perm (d : Doc) (ws : List (List Char)) (hp : ws.Perm d.tokens)
    (h : ∀ w ∈ d.tokens, BlankFree w) :
    (queryTerms (joinWords ws)).Perm (docTerms d) := by
  unfold queryTerms docTerms
  rw [words_joinWords ws (fun w hw => h w (hp.subset hw))]
  exact hp.flatMap_right _

/-- **C16 (no word is lost).** With prefix n-grams starting at length one every non-empty
word yields at least one term — on both sides. -/
theorem C16_terms_nonempty (w : List Char) (h : w ≠ []) : analyze w ≠ [] := by
  unfold analyze ngramsOf
  have h1 : Generated.Db.ngramMin = 1 := by decide
  have h7 : Generated.Db.ngramMax = 7 := by decide
  have hl : (lowerWord w).length = w.length := by unfold lowerWord; split <;> simp
  have hpos : 1 ≤ (lowerWord w).length := by
    rw [hl]; cases w with
    | nil => exact absurd rfl h
    | cons c cs => simp
  intro hnil
  have hmem : 1 ∈ (List.range (Generated.Db.ngramMax + 1)).filter
      (fun k => decide (Generated.Db.ngramMin ≤ k) && decide (k ≤ (lowerWord w).length)) := by
    rw [List.mem_filter, h1, h7]
    refine ⟨by simp, ?_⟩
    simp [hpos]
  rw [List.map_eq_nil_iff] at hnil
  rw [hnil] at hmem
  simp at hmem

/-- A document carries all the words. -/
def Carries (ws : List (List Char)) (d : Doc) : Prop := ∀ w ∈ ws, w ∈ d.tokens

/-- **C16 (meta-theorem about the ranking).** Whatever the score function and however the
index was built: if some document of the index carries all the words and matches, and
every carrier outscores every matching non-carrier (the *separation* the check measures
on the real BM25 ranking for every shipped constant), then the top document carries all
the words. -/
theorem C16_meta (ix : Idx) (score : Doc → Option Nat) (ws : List (List Char))
    (c : Doc) (hc : c ∈ ix.flatten) (hcar : Carries ws c) (sc : Nat) (hsc : score c = some sc)
    (hsep : ∀ d ∈ ix.flatten, ¬ Carries ws d → ∀ s, score d = some s →
      ∀ c' ∈ ix.flatten, Carries ws c' → ∀ s', score c' = some s' → s < s') :
    ∃ d, top1 score ix = some d ∧ Carries ws d := by
  obtain ⟨d, hd⟩ := top1_some score ix c hc sc hsc
  refine ⟨d, hd, ?_⟩
  obtain ⟨hm, s, hs, hmax⟩ := top1_max score ix d hd
  by_contra hn
  have h1 := hsep d hm hn s hs c hc hcar sc hsc
  have h2 := hmax c hc sc hsc
  omega

/-- Non-vacuity: a shipped constant in scope, its phrase and its terms. -/
example : (Generated.facts0.head?).map (fun r => (typeable r, String.ofList (phraseOf r)))
    = some (true, "mercury orbit distance") := by decide +kernel

example : analyze ['P', 'a', 'n'] = [['p'], ['p', 'a'], ['p', 'a', 'n']] := by decide +kernel

end Anything.Props.C16
