import Anything.Model.Eval
import Anything.Spec.Quantity
namespace Anything.Props.C04
theorem C04_placeholder : True := trivial
end Anything.Props.C04
