import Anything.Lemmas.Mul4
import Anything.Model.Eval
import Anything.Props.C02
/-!
# C04 — products, quotients and integer powers of quantities are dimensionally exact

`siQ q` is the specification's reading of a model quantity: its value in base SI
units and its dimension vector (`Spec.SI`). The theorems say that `*`, `/` and `^`
of the evaluator refine `Spec.SI.qmul`, `qdiv`, `qpow` — for **all** rational
magnitudes and **all** compounds of proportional units, whichever derived units
`reconstruct` chooses to display.
-/

namespace Anything.Props.C04
open Anything Anything.Eval Anything.Spec

/-- SI reading of a quantity. -/
def siQ (q : Numeric) : SI.Q := ⟨q.value * SI.scale (semOf q.unit), SI.dims (semOf q.unit)⟩

theorem siQ_eq (q : Numeric) :
    siQ q = ⟨q.value * scaleC q.unit, vecOf (fun b => dimsFn q.unit (.base b))⟩ := by
  simp [siQ, scale_semOf, dims_semOf]

/-- The one other outcome of `*` and `/` in a build with debug assertions: the
`Compound::new` assertion (a zero power left behind by `reconstruct`). -/
def DebugAssert (cfg : Cfg) (r : Except EvalErr Numeric × List Desc) (d : List Desc) : Prop :=
  cfg.debug = true ∧ r = (.error (.panic "Compound::new zero power"), d)

/-- **C04 (product).** -/
theorem C04_mul (cfg : Cfg) (s e : Nat) (a b : Numeric) (d : List Desc)
    (pa : Proportional a.unit) (pb : Proportional b.unit) :
    (∃ r, mulDiv cfg s e a b false d = (.ok r, d) ∧ siQ r = SI.qmul (siQ a) (siQ b)) ∨
      DebugAssert cfg (mulDiv cfg s e a b false d) d := by
  unfold mulDiv
  simp only [Bool.false_eq_true, ↓reduceIte]
  rcases mul_spec cfg.debug a.unit b.unit 1 a.value b.value pa pb with ⟨res, hres, spec⟩ | ⟨hd, hres⟩
  · left
    obtain ⟨u, av, bv⟩ := res
    rw [hres]
    refine ⟨_, rfl, ?_⟩
    rw [siQ_eq, siQ_eq, siQ_eq]
    simp only [SI.qmul, vecOf_add, SI.Q.mk.injEq]
    refine ⟨?_, ?_⟩
    · have := spec.val; simp only [zpow_one] at this; rw [← this]
    · congr 1; funext bb; have := spec.dims (.base bb); simp only at this; rw [this]; ring
  · right
    exact ⟨hd, by rw [hres]; rfl⟩

/-- **C04 (quotient).** Division by a non-zero quantity. -/
theorem C04_div (cfg : Cfg) (s e : Nat) (a b : Numeric) (d : List Desc)
    (pa : Proportional a.unit) (pb : Proportional b.unit) (hb : b.value ≠ 0) :
    (∃ r, mulDiv cfg s e a b true d = (.ok r, d) ∧ SI.qdiv (siQ a) (siQ b) = .ok (siQ r)) ∨
      DebugAssert cfg (mulDiv cfg s e a b true d) d := by
  unfold mulDiv
  simp only [↓reduceIte]
  rcases mul_spec cfg.debug a.unit b.unit (-1) a.value b.value pa pb with ⟨res, hres, spec⟩ | ⟨hd, hres⟩
  · left
    obtain ⟨u, av, bv⟩ := res
    rw [hres]
    have hbv : bv ≠ 0 := fun h => hb (spec.rhs_zero.mp h)
    simp only [hbv, ↓reduceIte]
    refine ⟨_, rfl, ?_⟩
    have hsb := scale_ne_zero b.unit
    rw [siQ_eq, siQ_eq, siQ_eq]
    have hne : b.value * scaleC b.unit ≠ 0 := mul_ne_zero hb hsb
    simp only [SI.qdiv, hne, ↓reduceIte, vecOf_smul, vecOf_add, Except.ok.injEq, SI.Q.mk.injEq]
    refine ⟨?_, ?_⟩
    · have := spec.val
      simp only [zpow_neg, zpow_one] at this
      rw [div_eq_mul_inv, div_eq_mul_inv, ← this]
    · congr 1; funext bb; have := spec.dims (.base bb); simp only at this; rw [this]
  · right
    exact ⟨hd, by rw [hres]; rfl⟩

/-- **C04 (division by zero).** A zero divisor — in whatever unit — is an error. -/
theorem C04_div_zero (cfg : Cfg) (s e : Nat) (a b : Numeric) (d : List Desc)
    (pa : Proportional a.unit) (pb : Proportional b.unit) (hb : b.value = 0) :
    mulDiv cfg s e a b true d = (.error (.err .divideByZero s e), d) ∨
      DebugAssert cfg (mulDiv cfg s e a b true d) d := by
  unfold mulDiv
  simp only [↓reduceIte]
  rcases mul_spec cfg.debug a.unit b.unit (-1) a.value b.value pa pb with ⟨res, hres, spec⟩ | ⟨hd, hres⟩
  · left
    obtain ⟨u, av, bv⟩ := res
    rw [hres]
    have hbv : bv = 0 := spec.rhs_zero.mpr hb
    simp only [hbv, ↓reduceIte]
    rfl
  · right
    exact ⟨hd, by rw [hres]; rfl⟩

theorem powLoop_eq (b : Rat) (n : Nat) (v : Rat) : powLoop b n v = v * b ^ n := by
  induction n generalizing v with
  | zero => simp [powLoop]
  | succ k ih => rw [powLoop, ih]; ring

theorem scaleC_checkedPow (u : Compound) (n : Int) : scaleC (Compound.checkedPow u n) = scaleC u ^ n := by
  unfold Compound.checkedPow
  rw [scaleC_filter_nz, scaleC_map_pow]

theorem dimsFn_checkedPow (u : Compound) (n : Int) (k : UnitKey) :
    dimsFn (Compound.checkedPow u n) k = n * dimsFn u k := by
  unfold Compound.checkedPow
  rw [dimsFn_filter_nz, dimsFn_map_pow]

/-- **C04 (integer power).** For an exponent `n` within the `i32` range (larger
exponents of a quantity with a unit are refused as a bad argument). -/
theorem C04_pow (s e : Nat) (a : Numeric) (n : Int) (d : List Desc)
    (hn : -2147483648 ≤ n ∧ n ≤ 2147483647) (ha : a.unit ≠ [])
    (hfit : Compound.powFits a.unit n = true) :
    match SI.qpow (siQ a) n with
    | .ok q => ∃ r, Eval.pow s e a { value := n, unit := [] } d = (.ok r, d) ∧ siQ r = q
    | .error _ => Eval.pow s e a { value := n, unit := [] } d = (.error (.err .divideByZero s e), d) := by
  have hsc := scale_ne_zero a.unit
  have hempty : a.unit.isEmpty = false := by cases hu : a.unit <;> simp_all
  have hr1 : ¬ (n < -2147483648) := by omega
  have hr2 : ¬ (n > 2147483647) := by omega
  unfold Eval.pow
  simp only [List.isEmpty_nil, Bool.not_true, Bool.false_eq_true, ↓reduceIte, Rat.den_intCast,
    ne_eq, not_true_eq_false, Rat.num_intCast, hempty, Bool.not_false, Bool.true_and, hr1, hr2,
    decide_false, Bool.or_self, hfit, Bool.not_true]
  rw [siQ_eq]
  simp only [SI.qpow, mul_eq_zero, hsc, or_false]
  by_cases hn0 : n = 0
  · subst hn0
    simp only [lt_self_iff_false, and_false, ↓reduceIte, pure]
    refine ⟨_, rfl, ?_⟩
    rw [siQ_eq]
    simp only [scaleC_checkedPow, arith_zpow_eq, zpow_zero, mul_one, vecOf_smul, SI.Q.mk.injEq, true_and]
    congr 1; funext bb; rw [dimsFn_checkedPow]
  · simp only [hn0, ↓reduceIte]
    by_cases hv : a.value = 0
    · simp only [hv, true_and, ↓reduceIte]
      by_cases hneg : n < 0
      · simp only [hneg, ↓reduceIte]; rfl
      · simp only [hneg, ↓reduceIte, pure]
        refine ⟨_, rfl, ?_⟩
        rw [siQ_eq]
        simp only [scaleC_checkedPow, arith_zpow_eq, zero_mul, vecOf_smul, SI.Q.mk.injEq]
        refine ⟨?_, ?_⟩
        · rw [zero_zpow n hn0]
        · congr 1; funext bb; rw [dimsFn_checkedPow]
    · simp only [hv, false_and, ↓reduceIte, pure]
      refine ⟨_, rfl, ?_⟩
      rw [siQ_eq]
      simp only [scaleC_checkedPow, arith_zpow_eq, vecOf_smul, SI.Q.mk.injEq, powLoop_eq, one_mul]
      refine ⟨?_, ?_⟩
      · rw [mul_zpow]
        congr 1
        by_cases hneg : n < 0
        · simp only [hneg, ↓reduceIte, one_div, inv_pow]
          have : n = -(n.natAbs : Int) := by omega
          conv_rhs => rw [this]
          rw [zpow_neg, zpow_natCast]
        · simp only [hneg, ↓reduceIte]
          have : n = (n.natAbs : Int) := by omega
          conv_rhs => rw [this]
          rw [zpow_natCast]
      · congr 1; funext bb; rw [dimsFn_checkedPow]

/-- **C04 (a power that leaves the `i32` range).** When some unit's power times the
exponent does not fit an `i32` (or the exponent itself does not) the result is the
`badArgument` error — never a number with a wrapped power. -/
theorem C04_pow_overflow (s e : Nat) (a : Numeric) (n : Int) (d : List Desc) (ha : a.unit ≠ [])
    (h : n < -2147483648 ∨ n > 2147483647 ∨ Compound.powFits a.unit n = false) :
    Eval.pow s e a { value := n, unit := [] } d = (.error (.err .badArgument s e), d) := by
  have hempty : a.unit.isEmpty = false := by cases hu : a.unit <;> simp_all
  unfold Eval.pow
  simp only [List.isEmpty_nil, Bool.not_true, Bool.false_eq_true, ↓reduceIte, Rat.den_intCast,
    ne_eq, not_true_eq_false, Rat.num_intCast, hempty, Bool.not_false, Bool.true_and]
  split
  · rfl
  · rename_i hc
    exfalso; apply hc
    rcases h with h | h | h <;> simp [h]

theorem powFits_zero (c : Compound) : Compound.powFits c 0 = true := by
  unfold Compound.powFits
  rw [List.all_eq_true]
  intro x _
  simp

/-- **C04 (zero power).** Any quantity to the power zero is the dimensionless one. -/
theorem C04_pow_zero (s e : Nat) (a : Numeric) (d : List Desc) :
    Eval.pow s e a { value := 0, unit := [] } d = (.ok { value := 1, unit := [] }, d) := by
  unfold Eval.pow
  have : Compound.checkedPow a.unit 0 = [] := by
    unfold Compound.checkedPow
    rw [List.filter_eq_nil_iff]
    intro x hx
    simp only [List.mem_map] at hx
    obtain ⟨y, _, rfl⟩ := hx
    simp
  cases hu : a.unit with
  | nil => simp [pure]
  | cons x xs =>
    have this' : Compound.checkedPow (x :: xs) 0 = [] := hu ▸ this
    simp [this', pure, powFits_zero]

/-- **C04 (a power is a repeated product).** At the SI level `a^(n+1) = a^n · a`. -/
theorem C04_pow_succ (q : SI.Q) (n : Nat) :
    SI.qpow q ((n : Int) + 1) = (SI.qpow q n).map (fun p => SI.qmul p q) := by
  have h1 : ¬ ((n : Int) + 1 < 0) := by omega
  have h2 : ¬ ((n : Int) < 0) := by omega
  obtain ⟨v, dv⟩ := q
  simp only [SI.qpow, h1, h2, and_false, ↓reduceIte, Except.map, SI.qmul, arith_zpow_eq, Except.ok.injEq,
    SI.Q.mk.injEq]
  refine ⟨?_, ?_⟩
  · rw [show ((n : Int) + 1) = ((n + 1 : Nat) : Int) by push_cast; rfl, zpow_natCast, zpow_natCast, pow_succ]
  · simp only [SI.DimVec.smul, SI.DimVec.add]
    apply List.ext_getElem
    · simp
    · intro i h1 h2
      simp only [List.getElem_map, List.getElem_zipWith]
      ring

end Anything.Props.C04
