import Anything.Lemmas.C06Defs
import Anything.Lemmas.C06Eval
import Anything.Lemmas.C06Shift
import Anything.Lemmas.C06Lex
import Anything.Lemmas.C06Root
import Anything.Generated.KnobsOp
/-!
# C06 — operator precedence, associativity and grouping are respected

Property theorems only; the proofs live in `Lemmas/C06*.lean`.

* **Stage A** (`C06_eval_represents`): the evaluator on any tree that `Represents` an expression
  returns the exact value of `Spec.Arith.denote`, or an error when `denote` is an error.
* **Stage B** (`C06_shiftReduce_correct`): precedence climbing with the stack discipline of the
  grammar's `opLoop` rebuilds every well-formed expression from its flat token sequence.
* **Stage C** (`C06_lex_render`, `C06_lex_renderQuery`): the lexer on a rendered expression
  yields its in-order token list with one WHITESPACE token per non-empty blank.
* **Stage D** (`C06_parse_render`): for every well-formed expression — literals, percentages,
  operator chains of any length and mix, parentheses at any depth, function calls — and every
  admissible layout, `parseRoot` succeeds on the rendered query and the single non-blank tree of
  the forest represents the expression. The proof (`Lemmas/C06Builder`, `C06Frames`, `C06Parse`,
  `C06Root`) relates the `opLoop` stack of `(cell, priority, isUnit)` frames to the stack of the
  specification-level machine of stage B.
* **Final** (`C06_query`, `C06_layout_irrelevant`, `C06_paren_anywhere`): `Eval.query` on a
  rendered query answers exactly `[denote e]`.

`Represents`, `RepresentsL`, `FoldR`, `LitsOK`, `RoundOK`, `Outcome` are defined in
`Lemmas/C06Defs.lean`, the shift-reduce machine in `Lemmas/C06Shift.lean`, `toks`, `LayoutOK`,
`QueryLayoutOK` in `Lemmas/C06Lex.lean`.
-/

namespace Anything.Props.C06
open Anything Anything.Eval Anything.Spec Anything.Spec.Arith Anything.Spec.Decimal Anything.C06

/-! ## Stage A — evaluator -/

/-- **C06 (evaluator).** If the tree `t` represents the expression `e` (all of whose literals
pass the number reader's `u32` guards, and whose two-argument `round`s have an `i32` second
argument), then for every start offset, every description log and every fuel of at least
twice the size of the tree — `Eval.query` supplies `2 * size + 2` — the evaluator returns
exactly `denote e` as a plain number, resp. an `err` (never a panic of the model) when `denote e`
is an error; the log is untouched. In particular an OPERATION node `x₀ o₁ x₁ … oₙ xₙ`
evaluates as the LEFT-nested `((x₀ o₁ x₁) o₂ x₂) …` and a parenthesised group as a unit. -/
theorem C06_eval_represents (cfg : Cfg) (t : Tree) (e : NExpr) (off fuel : Nat) (d : List Desc)
    (h : Represents t e) (hl : LitsOK e) (hr : RoundOK e) (hf : 2 * size t ≤ fuel) :
    Outcome (denote e) d (eval cfg fuel ⟨off, t⟩ d) :=
  evalOK_all cfg fuel t e off d hf h hl hr

/-- Value form of `C06_eval_represents`. -/
theorem C06_eval_represents_ok (cfg : Cfg) (t : Tree) (e : NExpr) (off fuel : Nat) (d : List Desc)
    (v : Rat) (h : Represents t e) (hl : LitsOK e) (hr : RoundOK e) (hf : 2 * size t ≤ fuel)
    (hv : denote e = .ok v) :
    eval cfg fuel ⟨off, t⟩ d = (.ok { value := v, unit := [] }, d) := by
  have := C06_eval_represents cfg t e off fuel d h hl hr hf
  rw [hv] at this
  exact this

/-- Error form of `C06_eval_represents`. -/
theorem C06_eval_represents_err (cfg : Cfg) (t : Tree) (e : NExpr) (off fuel : Nat) (d : List Desc)
    (x : ArithErr) (h : Represents t e) (hl : LitsOK e) (hr : RoundOK e) (hf : 2 * size t ≤ fuel)
    (hv : denote e = .error x) :
    ∃ k s e', eval cfg fuel ⟨off, t⟩ d = (.error (.err k s e'), d) := by
  have := C06_eval_represents cfg t e off fuel d h hl hr hf
  rw [hv] at this
  exact this

/-- A natural-number literal with the given decimal digits. -/
def natLit (ds : List Nat) : Literal :=
  { sign := none, int := ds, frac := none, exp := none, percent := false }

/-- The tree the grammar builds for a plain number. -/
def numTree (id : Nat) (s : String) : Tree := .node (id + 1) .NUMBER [.tok id .NUMBER s.toList]

/-- Non-vacuity: a hand-written tree of the shape the grammar builds for `7 - 2 - (1 + 1)`
(flat chain, nested group, blanks as childless tokens) represents the left-nested expression,
and that expression meets the side conditions. -/
example :
    Represents
      (.node 20 .OPERATION [numTree 0 "7", .tok 2 .WHITESPACE [' '],
        .node 3 .OP_SUB [.tok 4 .DASH ['-']], numTree 5 "2",
        .node 7 .OP_SUB [.tok 8 .DASH ['-']],
        .node 19 .OPERATION [.tok 9 .OPEN_PAREN ['('],
          .node 17 .OPERATION [numTree 10 "1", .node 12 .OP_ADD [.tok 13 .PLUS ['+']],
            .tok 14 .WHITESPACE ['\t'], numTree 15 "1"],
          .tok 18 .CLOSE_PAREN [')']]])
      (.bin .sub (.bin .sub (.lit (natLit [7])) (.lit (natLit [2])))
        (.paren (.bin .add (.lit (natLit [1])) (.lit (natLit [1]))))) ∧
    LitsOK (.bin .sub (.bin .sub (.lit (natLit [7])) (.lit (natLit [2])))
        (.paren (.bin .add (.lit (natLit [1])) (.lit (natLit [1]))))) := by
  have n : ∀ (id : Nat) (s : String) (ds : List Nat), s.toList = renderNumber (natLit ds) →
      Represents (numTree id s) (.lit (natLit ds)) := fun id s ds h =>
    .num rfl rfl rfl (by simpa [numTree, Tree.text, Tree.textList] using h)
  have lo : ∀ d, d < 10 → LitOK (natLit [d]) := by
    intro d hd
    refine ⟨⟨?_, ?_, ?_, ?_⟩, ?_, ?_⟩ <;> simp [natLit, fracDigits, Number.u32Max, hd]
  refine ⟨?_, ⟨lo 7 (by omega), lo 2 (by omega)⟩, lo 1 (by omega), lo 1 (by omega)⟩
  refine .chain (x₀ := numTree 0 "7") rfl (by decide) (n 0 "7" [7] (by decide)) ?_
  refine .cons (op := .sub) rfl (n 5 "2" [2] (by decide)) ?_
  refine .cons (op := .sub) rfl ?_ (.nil _)
  refine .paren (x := .node 17 .OPERATION _) rfl ?_
  refine .chain (x₀ := numTree 10 "1") rfl (by decide) (n 10 "1" [1] (by decide)) ?_
  exact .cons (op := .add) rfl (n 15 "1" [1] (by decide)) (.nil _)

/-! ## Stage B — precedence climbing at the level of the specification -/

/-- **C06 (precedence climbing).** Reading the flat operand / operator sequence of a
well-formed expression with the stack discipline of `opLoop` — push a frame on a higher
priority, close frames while the new operator's priority is lower, extend the frame on equal
priority — yields the expression itself, hence its value: `^` binds tighter than `*` `/`, these
tighter than `+` `-`, and equal priorities group left to right. -/
theorem C06_shiftReduce_correct (e : NExpr) (h : WF e) :
    shiftReduce (flat e).1 (flat e).2 = e ∧
    denote (shiftReduce (flat e).1 (flat e).2) = denote e := by
  rw [shiftReduce_flat e h]; exact ⟨rfl, rfl⟩

/-- Non-vacuity: `1 + 2 * 3 ^ 2 - 4` is well formed, its flat form has four operators, and a
tree that is NOT the one the grammar assigns (`(1 + 2) * 3` without parentheses) is not `WF`. -/
example :
    let one := NExpr.lit (natLit [1]); let two := NExpr.lit (natLit [2])
    let three := NExpr.lit (natLit [3]); let four := NExpr.lit (natLit [4])
    WF (.bin .sub (.bin .add one (.bin .mul two (.bin .pow three two))) four) ∧
    (flat (.bin .sub (.bin .add one (.bin .mul two (.bin .pow three two))) four)).2.length = 4 ∧
    ¬ WF (.bin .mul (.bin .add one two) three) := by
  simp [WF, flat, NExpr.prio, BinOp.prio, natLit, Literal.WF, fracDigits]

/-! ## Stage C — lexer -/

/-- **C06 (lexer on renderings).** For every expression and every layout satisfying the
property's side conditions (`LayoutOK`: blanks are white space — any number of spaces, tabs
or other white-space characters, or nothing — and a binary `+`/`-` directly followed by an
unsigned literal is followed by at least one blank), the lexer produces, on the rendering of `e`
followed by any text `rest` that is empty or starts with a blank, a closing delimiter or an
operator (`ExprStop`), exactly the in-order token list `toks e ws` of `e` — one WHITESPACE token
per non-empty blank — followed by the tokens of `rest`. -/
theorem C06_lex_render (e : NExpr) (ws : Layout) (rest : List Char)
    (h : LayoutOK e ws) (hs : ExprStop rest) :
    Lexer.lex ((Arith.render e ws).1 ++ rest) = toks e ws ++ Lexer.lex rest :=
  lexes_lex (lex_e e ws rest _ h hs (lexes_lex_self rest))

/-- **C06 (lexer on rendered queries).** The token list of a whole rendered query: leading
blank, the tokens of the expression, trailing blank. -/
theorem C06_lex_renderQuery (e : NExpr) (ws : Layout) (h : QueryLayoutOK e ws) :
    Lexer.lex (renderQuery e ws) = queryToks e ws :=
  lex_query e ws h

/-- The hypothesis `LayoutOK` cannot be dropped: with no blank after a binary `+` the sign is
glued to the following literal and the token list is a different one. -/
theorem C06_lex_needs_LayoutOK :
    Lexer.lex (renderQuery (.bin .add (.lit (natLit [1])) (.lit (natLit [2]))) [[], [], [], []]) ≠
      queryToks (.bin .add (.lit (natLit [1])) (.lit (natLit [2]))) [[], [], [], []] := by
  decide +kernel

/-- Non-vacuity: `( 1+ 2 )*3` with tabs and several spaces is an admissible layout, and its
token list has eleven tokens. -/
example :
    let e := NExpr.bin .mul (.paren (.bin .add (.lit (natLit [1])) (.lit (natLit [2]))))
      (.lit (natLit [3]))
    let ws : Layout := [[' ', '\t'], [' '], [], [' ', ' '], ['\t'], [], [], []]
    QueryLayoutOK e ws ∧ (queryToks e ws).length = 11 := by
  refine ⟨?_, by decide⟩
  simp [QueryLayoutOK, LayoutOK, Blank, blank1, rest1, after, nextBlank, Arith.render, natLit,
    Literal.WF, fracDigits, startsUnsigned]
  decide

/-! ## Stage D — parser -/

/-- **C06 (parser on renderings).** For every well-formed expression `e` (operator chains of any
length and any mix of the five operators, parentheses nested to any depth, calls with any
number of arguments) and every layout admitted by the property (`QueryLayoutOK`), parsing the
rendered query succeeds and the forest consists of blank leaves and exactly one other tree,
which represents `e` — so the tree groups operands exactly as the documented grammar does. -/
theorem C06_parse_render (e : NExpr) (ws : Layout) (hwf : WF e) (hl : QueryLayoutOK e ws) :
    ∃ forest x, Grammar.parseRoot (renderQuery e ws) = .ok forest ∧
      forest.filter (fun t => t.kind != .WHITESPACE) = [x] ∧ Represents x e := by
  obtain ⟨forest, hp, hF⟩ := parse_render e ws hwf hl
  obtain ⟨x, hx, hr⟩ := forestOK_filter hF
  exact ⟨forest, x, hp, hx, repL_to_rep hr⟩

/-- **C06 (parser on renderings, with levels).** The tree is moreover *levelled*: all operators
of any one OPERATION node, at any depth, have the same priority (`RepresentsL`, which implies
`Represents`) — the tree has exactly one node per maximal run of equal-priority operators, as the
documented grammar prescribes. -/
theorem C06_parse_render_levels (e : NExpr) (ws : Layout) (hwf : WF e) (hl : QueryLayoutOK e ws) :
    ∃ forest x, Grammar.parseRoot (renderQuery e ws) = .ok forest ∧
      forest.filter (fun t => t.kind != .WHITESPACE) = [x] ∧ RepresentsL x e ∧ Represents x e := by
  obtain ⟨forest, hp, hF⟩ := parse_render e ws hwf hl
  obtain ⟨x, hx, hr⟩ := forestOK_filter hF
  exact ⟨forest, x, hp, hx, hr, repL_to_rep hr⟩

/-- `C06_parse_render` with the position of the blanks made explicit: blank leaves, the tree,
blank leaves. -/
theorem C06_parse_render_shape (e : NExpr) (ws : Layout) (hwf : WF e) (hl : QueryLayoutOK e ws) :
    ∃ forest lead x trail, Grammar.parseRoot (renderQuery e ws) = .ok forest ∧
      forest = lead ++ [x] ++ trail ∧ WSTrees lead ∧ WSTrees trail ∧ Represents x e := by
  obtain ⟨forest, hp, Wt, x, Wt', hf, h1, h2, hx⟩ := parse_render e ws hwf hl
  exact ⟨forest, Wt, x, Wt', hp, hf, h1, h2, repL_to_rep hx⟩

/-- Test (labelled as a test): the model's parser on one concrete rendering with tabs, double
blanks, no blanks around `*` and a trailing blank — the leading blank ends up inside the
OPERATION node, the trailing one beside it. -/
example :
    let e := NExpr.bin .mul (.paren (.bin .add (.lit (natLit [1])) (.lit (natLit [2]))))
      (.lit (natLit [3]))
    let ws : Layout := [[' ', '\t'], [' '], [], [' ', ' '], ['\t'], [], [], [' ']]
    String.ofList (renderQuery e ws) = " \t( 1+  2\t)*3 " ∧
    (Grammar.parseRoot (renderQuery e ws)).toOption.map (fun f => f.map Tree.kind) =
      some [.OPERATION, .WHITESPACE] := by
  decide +kernel

/-! ## Final — the whole pipeline -/

/-- **C06 (query).** `Eval.query` on the rendering of a well-formed expression under any
admissible layout answers with exactly one result and no descriptions: the exact rational
`denote e` as a plain number, or an `err` when `denote e` is an error. The side conditions are the
reader's `u32` guards on literals (`LitsOK`) and an `i32` integer as second argument of `round`
(`RoundOK`); see the remarks at the end of this file. -/
theorem C06_query (cfg : Cfg) (e : NExpr) (ws : Layout) (hwf : WF e) (hl : QueryLayoutOK e ws)
    (hlit : LitsOK e) (hro : RoundOK e) :
    QueryOutcome (denote e) (Eval.query cfg (renderQuery e ws)) :=
  query_render cfg e ws hwf hl hlit hro

/-- Non-vacuity for *every* expression: the default layout (one space at every blank position,
also at both ends) is admissible for every well-formed expression, so the layout hypothesis of
`C06_parse_render`, `C06_query`, `C06_layout_irrelevant` is always satisfiable. -/
theorem C06_default_layout_ok (e : NExpr) (h : WF e) : QueryLayoutOK e [] :=
  queryLayoutOK_nil e h

/-- Value form of `C06_query`. -/
theorem C06_query_ok (cfg : Cfg) (e : NExpr) (ws : Layout) (v : Rat) (hwf : WF e)
    (hl : QueryLayoutOK e ws) (hlit : LitsOK e) (hro : RoundOK e) (hv : denote e = .ok v) :
    Eval.query cfg (renderQuery e ws) = .ok ([.ok { value := v, unit := [] }], []) := by
  have := C06_query cfg e ws hwf hl hlit hro
  rw [hv] at this
  exact this

/-- Results with the kind and span of errors forgotten (spans are byte offsets into the query
text, hence depend on the blanks). -/
def values (r : Except BErr (List (Except EvalErr Numeric) × List Desc)) :
    Option (List (Option Rat) × List Desc) :=
  match r with
  | .ok (rs, d) => some (rs.map (fun x => match x with | .ok n => some n.value | .error _ => none), d)
  | .error _ => none

/-- **C06 (layout irrelevant).** Two admissible layouts of the same expression give the same
results: the same value (and literally the same answer of `Eval.query`), or an error under both.
The number and kind of blanks at every blank position, and at either end of the query, do not
matter. -/
theorem C06_layout_irrelevant (cfg : Cfg) (e : NExpr) (ws ws' : Layout) (hwf : WF e)
    (hl : QueryLayoutOK e ws) (hl' : QueryLayoutOK e ws') (hlit : LitsOK e) (hro : RoundOK e) :
    values (Eval.query cfg (renderQuery e ws)) = values (Eval.query cfg (renderQuery e ws')) ∧
    (∀ v, denote e = .ok v →
      Eval.query cfg (renderQuery e ws) = Eval.query cfg (renderQuery e ws')) := by
  have h1 := C06_query cfg e ws hwf hl hlit hro
  have h2 := C06_query cfg e ws' hwf hl' hlit hro
  cases hd : denote e with
  | ok v =>
    rw [hd] at h1 h2
    simp only [QueryOutcome] at h1 h2
    exact ⟨by rw [h1, h2], fun _ _ => by rw [h1, h2]⟩
  | error x =>
    rw [hd] at h1 h2
    obtain ⟨k1, s1, e1, h1⟩ := h1
    obtain ⟨k2, s2, e2, h2⟩ := h2
    exact ⟨by rw [h1, h2]; rfl, fun v hv => by cases hv⟩

/-- **C06 (parentheses anywhere).** A parenthesised sub-expression `( a )` is evaluated as a
unit wherever it stands — as left operand, as right operand, nested in further parentheses, as a
function argument: the answer is that of the expression tree in which `a` is a *single operand*
(`denote (.bin op a b)` etc., whatever operators `a` itself contains). Deeper placements
(first, last, inside other groups or arguments) are instances of `C06_query`, which holds for
every well-formed expression. -/
theorem C06_paren_anywhere (cfg : Cfg) (op : BinOp) (f : Fn) (a b : NExpr) (ws : Layout) :
    (WF (.bin op (.paren a) b) → QueryLayoutOK (.bin op (.paren a) b) ws →
      LitsOK (.bin op a b) → RoundOK (.bin op a b) →
      QueryOutcome (denote (.bin op a b))
        (Eval.query cfg (renderQuery (.bin op (.paren a) b) ws))) ∧
    (WF (.bin op b (.paren a)) → QueryLayoutOK (.bin op b (.paren a)) ws →
      LitsOK (.bin op b a) → RoundOK (.bin op b a) →
      QueryOutcome (denote (.bin op b a))
        (Eval.query cfg (renderQuery (.bin op b (.paren a)) ws))) ∧
    (WF a → QueryLayoutOK (.paren (.paren a)) ws → LitsOK a → RoundOK a →
      QueryOutcome (denote a) (Eval.query cfg (renderQuery (.paren (.paren a)) ws))) ∧
    (WF a → QueryLayoutOK (.call f [.paren a]) ws → LitsOK a → RoundOK (.call f [a]) →
      QueryOutcome (denote (.call f [a]))
        (Eval.query cfg (renderQuery (.call f [.paren a]) ws))) := by
  refine ⟨fun hwf hl hlit hro => ?_, fun hwf hl hlit hro => ?_, fun hwf hl hlit hro => ?_,
    fun hwf hl hlit hro => ?_⟩
  · rw [← denote_paren_left]
    exact C06_query cfg _ ws hwf hl hlit hro
  · rw [← denote_paren_right]
    exact C06_query cfg _ ws hwf hl hlit hro
  · rw [← denote_paren_paren]
    exact C06_query cfg _ ws hwf hl hlit hro
  · rw [← denote_paren_arg]
    refine C06_query cfg _ ws ?_ hl ?_ ?_
    · simpa [WF, WFList] using hwf
    · simpa [LitsOK, LitsOKList] using hlit
    · simp only [RoundOK, RoundOKList] at hro ⊢
      refine ⟨hro.1, ?_⟩
      intro _ x y hxy
      simp at hxy

/-- Non-vacuity of the final theorems: `(1 + 2) * 3` with an irregular layout satisfies every
hypothesis of `C06_query`, and its value is `9` — not the `7` of `1 + 2 * 3`. -/
example :
    let e := NExpr.bin .mul (.paren (.bin .add (.lit (natLit [1])) (.lit (natLit [2]))))
      (.lit (natLit [3]))
    let ws : Layout := [[' ', '\t'], [' '], [], [' ', ' '], ['\t'], [], [], []]
    WF e ∧ QueryLayoutOK e ws ∧ LitsOK e ∧ RoundOK e ∧ denote e = .ok 9 := by
  refine ⟨?_, ?_, ?_, ?_, by decide +kernel⟩
  · simp [WF, NExpr.prio, BinOp.prio, natLit, Literal.WF, fracDigits]
  · simp [QueryLayoutOK, LayoutOK, Blank, blank1, rest1, after, nextBlank, Arith.render, natLit,
      Literal.WF, fracDigits, startsUnsigned]
    decide
  · simp [LitsOK, LitOK, natLit, Literal.WF, fracDigits, Number.u32Max]
  · simp [RoundOK]

/-!
## Remarks (model / specification oddities met on the way)

* `round(x, n)`: the code truncates the second argument with `to_i32` (`RatNum.toI32`), so a
  non-integral `n` (`round(1, 2.5)` rounds to two digits) or an `n` outside `i32` (an error in the
  code) disagree with `Spec.Arith.applyFn`, which answers `.error .other` resp. a value. `RoundOK`
  excludes exactly these.
* Literals whose fraction has more than `u32::MAX` digits, or whose exponent exceeds `u32::MAX`,
  are rejected by the reader (`C07_guard_*`); `LitsOK` excludes them.
* `^` is LEFT associative in the grammar (`2^3^2 = 64`), as the property text says ("operators of
  equal precedence group left to right"); `Spec.Arith.WF` agrees.
* A call with an empty argument list parses to an FN_ARGUMENTS node without children, which the
  evaluator skips (`has_children`), answering `unexpected`; the specification answers an arity
  error — both errors, so `C06_query` covers it.
-/


/-- **C06 (the operator table of the source is the model's).** The table extracted from
`grammar.rs::op` on every run — token, priority, node kind, "right operand is a unit" —
is exactly `Grammar.opInfo`, the table all theorems above are about: `^` and `**` (10)
above `*` `/` (3) above `+` `-` (2) above `to` (1). -/
theorem C06_op_table (k : Syntax) :
    Anything.Grammar.opInfo k =
      (Anything.Generated.Knobs.opTable.find? (fun r => r.1 == k)).map (fun r => r.2) := by
  cases k <;> rfl

end Anything.Props.C06
