import Anything.Model.Eval
import Anything.Spec.Arith
namespace Anything.Props.C06
theorem C06_placeholder : True := trivial
end Anything.Props.C06
