import Anything.Lemmas.C06Defs
import Anything.Lemmas.C06Eval
import Anything.Lemmas.C06Shift
/-!
# C06 — operator precedence, associativity and grouping are respected

Property theorems only; the proofs live in `Lemmas/C06*.lean`.

* **Stage A** (`C06_eval_represents`): the evaluator on any tree that `Represents` an expression
  returns the exact value of `Spec.Arith.denote`, or an error when `denote` is an error.
* **Stage B** (`C06_shiftReduce_correct`): precedence climbing with the stack discipline of the
  grammar's `opLoop` rebuilds every well-formed expression from its flat token sequence.

`Represents`, `FoldR`, `LitsOK`, `RoundOK`, `Outcome` are defined in `Lemmas/C06Defs.lean`,
the shift-reduce machine in `Lemmas/C06Shift.lean`.
-/

namespace Anything.Props.C06
open Anything Anything.Eval Anything.Spec Anything.Spec.Arith Anything.Spec.Decimal Anything.C06

/-! ## Stage A — evaluator -/

/-- **C06 (evaluator).** If the tree `t` represents the expression `e` (all of whose literals
pass the number reader's `u32` guards, and whose two-argument `round`s have an `i32` second
argument), then for every start offset, every description log and every fuel of at least
twice the size of the tree — `Eval.query` supplies `2 * size + 2` — the evaluator returns
exactly `denote e` as a plain number, resp. an `err` (never a panic of the model) when `denote e`
is an error; the log is untouched. In particular an OPERATION node `x₀ o₁ x₁ … oₙ xₙ`
evaluates as the LEFT-nested `((x₀ o₁ x₁) o₂ x₂) …` and a parenthesised group as a unit. -/
theorem C06_eval_represents (cfg : Cfg) (t : Tree) (e : NExpr) (off fuel : Nat) (d : List Desc)
    (h : Represents t e) (hl : LitsOK e) (hr : RoundOK e) (hf : 2 * size t ≤ fuel) :
    Outcome (denote e) d (eval cfg fuel ⟨off, t⟩ d) :=
  evalOK_all cfg fuel t e off d hf h hl hr

/-- Value form of `C06_eval_represents`. -/
theorem C06_eval_represents_ok (cfg : Cfg) (t : Tree) (e : NExpr) (off fuel : Nat) (d : List Desc)
    (v : Rat) (h : Represents t e) (hl : LitsOK e) (hr : RoundOK e) (hf : 2 * size t ≤ fuel)
    (hv : denote e = .ok v) :
    eval cfg fuel ⟨off, t⟩ d = (.ok { value := v, unit := [] }, d) := by
  have := C06_eval_represents cfg t e off fuel d h hl hr hf
  rw [hv] at this
  exact this

/-- Error form of `C06_eval_represents`. -/
theorem C06_eval_represents_err (cfg : Cfg) (t : Tree) (e : NExpr) (off fuel : Nat) (d : List Desc)
    (x : ArithErr) (h : Represents t e) (hl : LitsOK e) (hr : RoundOK e) (hf : 2 * size t ≤ fuel)
    (hv : denote e = .error x) :
    ∃ k s e', eval cfg fuel ⟨off, t⟩ d = (.error (.err k s e'), d) := by
  have := C06_eval_represents cfg t e off fuel d h hl hr hf
  rw [hv] at this
  exact this

/-- A natural-number literal with the given decimal digits. -/
def natLit (ds : List Nat) : Literal :=
  { sign := none, int := ds, frac := none, exp := none, percent := false }

/-- The tree the grammar builds for a plain number. -/
def numTree (id : Nat) (s : String) : Tree := .node (id + 1) .NUMBER [.tok id .NUMBER s.toList]

/-- Non-vacuity: a hand-written tree of the shape the grammar builds for `7 - 2 - (1 + 1)`
(flat chain, nested group, blanks as childless tokens) represents the left-nested expression,
and that expression meets the side conditions. -/
example :
    Represents
      (.node 20 .OPERATION [numTree 0 "7", .tok 2 .WHITESPACE [' '],
        .node 3 .OP_SUB [.tok 4 .DASH ['-']], numTree 5 "2",
        .node 7 .OP_SUB [.tok 8 .DASH ['-']],
        .node 19 .OPERATION [.tok 9 .OPEN_PAREN ['('],
          .node 17 .OPERATION [numTree 10 "1", .node 12 .OP_ADD [.tok 13 .PLUS ['+']],
            .tok 14 .WHITESPACE ['\t'], numTree 15 "1"],
          .tok 18 .CLOSE_PAREN [')']]])
      (.bin .sub (.bin .sub (.lit (natLit [7])) (.lit (natLit [2])))
        (.paren (.bin .add (.lit (natLit [1])) (.lit (natLit [1]))))) ∧
    LitsOK (.bin .sub (.bin .sub (.lit (natLit [7])) (.lit (natLit [2])))
        (.paren (.bin .add (.lit (natLit [1])) (.lit (natLit [1]))))) := by
  have n : ∀ (id : Nat) (s : String) (ds : List Nat), s.toList = renderNumber (natLit ds) →
      Represents (numTree id s) (.lit (natLit ds)) := fun id s ds h =>
    .num rfl rfl rfl (by simpa [numTree, Tree.text, Tree.textList] using h)
  have lo : ∀ d, d < 10 → LitOK (natLit [d]) := by
    intro d hd
    refine ⟨⟨?_, ?_, ?_, ?_⟩, ?_, ?_⟩ <;> simp [natLit, fracDigits, Number.u32Max, hd]
  refine ⟨?_, ⟨lo 7 (by omega), lo 2 (by omega)⟩, lo 1 (by omega), lo 1 (by omega)⟩
  refine .chain (x₀ := numTree 0 "7") rfl (by decide) (n 0 "7" [7] (by decide)) ?_
  refine .cons (op := .sub) rfl (n 5 "2" [2] (by decide)) ?_
  refine .cons (op := .sub) rfl ?_ (.nil _)
  refine .paren (x := .node 17 .OPERATION _) rfl ?_
  refine .chain (x₀ := numTree 10 "1") rfl (by decide) (n 10 "1" [1] (by decide)) ?_
  exact .cons (op := .add) rfl (n 15 "1" [1] (by decide)) (.nil _)

/-! ## Stage B — precedence climbing at the level of the specification -/

/-- **C06 (precedence climbing).** Reading the flat operand / operator sequence of a
well-formed expression with the stack discipline of `opLoop` — push a frame on a higher
priority, close frames while the new operator's priority is lower, extend the frame on equal
priority — yields the expression itself, hence its value: `^` binds tighter than `*` `/`, these
tighter than `+` `-`, and equal priorities group left to right. -/
theorem C06_shiftReduce_correct (e : NExpr) (h : WF e) :
    shiftReduce (flat e).1 (flat e).2 = e ∧
    denote (shiftReduce (flat e).1 (flat e).2) = denote e := by
  rw [shiftReduce_flat e h]; exact ⟨rfl, rfl⟩

/-- Non-vacuity: `1 + 2 * 3 ^ 2 - 4` is well formed, its flat form has four operators, and a
tree that is NOT the one the grammar assigns (`(1 + 2) * 3` without parentheses) is not `WF`. -/
example :
    let one := NExpr.lit (natLit [1]); let two := NExpr.lit (natLit [2])
    let three := NExpr.lit (natLit [3]); let four := NExpr.lit (natLit [4])
    WF (.bin .sub (.bin .add one (.bin .mul two (.bin .pow three two))) four) ∧
    (flat (.bin .sub (.bin .add one (.bin .mul two (.bin .pow three two))) four)).2.length = 4 ∧
    ¬ WF (.bin .mul (.bin .add one two) three) := by
  simp [WF, flat, NExpr.prio, BinOp.prio, natLit, Literal.WF, fracDigits]

end Anything.Props.C06
