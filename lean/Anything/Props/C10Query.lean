import Anything.Props.C06
/-!
# C10, end to end — the rounding functions written as queries

`Props/C10.lean` proves the builtins against the order-theoretic definitions. With C06's
parser theorems the same holds for the TEXT `round(x)`, `floor(x)`, `ceil(x)`, `round(x, n)`
where the arguments are arbitrary well-formed numeric expressions: the single result of the
query is exactly `Spec.Arith.applyFn` of the arguments' exact values.
-/

namespace Anything.Props.C10
open Anything Anything.Eval Anything.Spec Anything.Spec.Arith Anything.Spec.Decimal Anything.C06 Anything.Props.C06

/-- **C10 (a call written as a query).** For any function of the table and any list of
well-formed argument expressions, under any admissible layout. -/
theorem C10_query (cfg : Cfg) (f : Fn) (args : List NExpr) (ws : Layout) (v : Rat)
    (hwf : WF (.call f args)) (hl : QueryLayoutOK (.call f args) ws)
    (hlit : LitsOK (.call f args)) (hro : RoundOK (.call f args))
    (hv : denote (.call f args) = .ok v) :
    Eval.query cfg (renderQuery (.call f args) ws) = .ok ([.ok { value := v, unit := [] }], []) :=
  C06_query_ok cfg (.call f args) ws v hwf hl hlit hro hv

/-- What `denote` of a call is: the arguments' exact values through the mathematical
definitions (`floorI`, `ceilI`, `roundHalfAway`, `roundTo`). -/
theorem C10_query_floor (x : Rat) : applyFn .floor [x] = .ok (floorI x) := rfl
theorem C10_query_ceil (x : Rat) : applyFn .ceil [x] = .ok (ceilI x) := rfl
theorem C10_query_round (x : Rat) : applyFn .round [x] = .ok (roundHalfAway x) := rfl
theorem C10_query_arity (f : Fn) : applyFn f [] = .error .arity := by cases f <;> rfl

end Anything.Props.C10
