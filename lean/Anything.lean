import Anything.Model.Basic
import Anything.Model.Lexer
import Anything.Model.Number
import Anything.Spec.Decimal
