import Anything
/-!
# Line-protocol driver for the model (no Mathlib in the import closure)
-/
open Anything

namespace Driver

def hexVal (c : Char) : Nat :=
  if '0' ≤ c ∧ c ≤ '9' then c.toNat - '0'.toNat
  else if 'a' ≤ c ∧ c ≤ 'f' then c.toNat - 'a'.toNat + 10
  else if 'A' ≤ c ∧ c ≤ 'F' then c.toNat - 'A'.toNat + 10
  else 0

def hexDecodeBytes (s : String) : ByteArray :=
  if s == "-" then ByteArray.empty else
  let rec go (cs : List Char) (acc : ByteArray) : ByteArray :=
    match cs with
    | a :: b :: rest => go rest (acc.push (UInt8.ofNat (hexVal a * 16 + hexVal b)))
    | _ => acc
  go s.toList ByteArray.empty

def hexDecode (s : String) : List Char :=
  match String.fromUTF8? (hexDecodeBytes s) with
  | some str => str.toList
  | none => []

def hexDigit (n : Nat) : Char :=
  if n < 10 then Char.ofNat ('0'.toNat + n) else Char.ofNat ('a'.toNat + n - 10)

def hexEncodeBytes (b : ByteArray) : String :=
  if b.size == 0 then "-" else
  String.ofList (b.toList.flatMap fun x => [hexDigit (x.toNat / 16), hexDigit (x.toNat % 16)])

def hexEncode (s : List Char) : String := hexEncodeBytes (String.ofList s).toUTF8

def ratStr (r : Rat) : String := s!"{r.num}/{r.den}"

def cmdLex (src : List Char) : String :=
  let toks := Lexer.lex src
  "T" ++ String.join (toks.map fun t => s!" {t.kind.name}:{t.len}")

def cmdNum (src : List Char) : String :=
  match Number.fromStr src with
  | some r => s!"N {ratStr r}"
  | none => "N ERR"

/-- Independent spec for `num`: value of the literal if the input is a well-formed
literal without percent sign whose counters fit `u32`; silent otherwise. -/
def specNum (src : List Char) : String :=
  match Spec.Decimal.parse src with
  | some l =>
    if l.percent then "-"
    else if (Spec.Decimal.fracDigits l).length > Number.u32Max then "-"
    else match l.exp with
      | some e => if e.val > Number.u32Max then "-" else s!"N {ratStr (Spec.Decimal.value l)}"
      | none => s!"N {ratStr (Spec.Decimal.value l)}"
  | none => "-"

def specLex (src : List Char) : String := s!"L {utf8Len src}"

def parseInt (s : String) : Int :=
  match s.toList with
  | '-' :: r => -((String.ofList r).toNat!)
  | '+' :: r => (String.ofList r).toNat!
  | _ => s.toNat!

def parseRat (s : String) : Rat :=
  match s.splitOn "/" with
  | [n, d] => (parseInt n : Rat) / (parseInt d : Rat)
  | [n] => (parseInt n : Rat)
  | _ => 0

def parseUnitKey (s : String) : UnitKey :=
  match s.toList with
  | 'D' :: r => .derived (String.ofList r).toNat!
  | _ => match Base.all.find? (fun b => b.name == s) with
    | some b => .base b
    | none => .base .Byte

/-- Canonical unit text `key:power:prefix,...` (or `-`). Entries are inserted through the
model's own sorted insert (the harness builds the `BTreeMap` the same way). -/
def parseUnitCanon (s : String) : Compound :=
  if s == "-" then [] else
  (s.splitOn ",").foldl (fun (c : Compound) e =>
    match e.splitOn ":" with
    | [k, p, x] =>
      let power := parseInt p
      if power == 0 then c else AMap.insert c (parseUnitKey k) { power := power, pfx := parseInt x }
    | _ => c) []

def unitCanon (c : Compound) : String :=
  if c.isEmpty then "-" else
  ",".intercalate (c.map fun e => s!"{e.1.show}:{e.2.power}:{e.2.pfx}")

def cmdUnitw (src : List Char) : String :=
  match UnitWord.parse src with
  | some (rest, p, u) => s!"U {utf8Len rest} {p} {u.show}"
  | none => "U NONE"

def cmdFactor (a b v : String) : String :=
  match Compound.factor (parseUnitCanon a) (parseUnitCanon b) (parseRat v) with
  | .ok (some r) => s!"F OK {ratStr r}"
  | .ok none => "F FALSE"
  | .error _ => "F ERR"

def cmdMul (a b n l r : String) : String :=
  match Compound.mul true (parseUnitCanon a) (parseUnitCanon b) (parseInt n) (parseRat l) (parseRat r) with
  | .ok (c, l', r') => s!"M {unitCanon c} {ratStr l'} {ratStr r'}"
  | .error .conversion => "M ERR"
  | .error .zeroPower => "PANIC zero power"

/-! ### `expr`: spec-side rendering and denotation of a generated expression -/
open Spec.Arith in
partial def parseExpr : List String → Option (NExpr × List String)
  | [] => none
  | t :: rest =>
    match t.toList with
    | 'L' :: h =>
      match Spec.Decimal.parse (hexDecode (String.ofList h)) with
      | some l => some (.lit l, rest)
      | none => none
    | ['B', c] =>
      let op? : Option BinOp := match c with
        | '+' => some .add | '-' => some .sub | '*' => some .mul | '/' => some .div | '^' => some .pow
        | _ => none
      match op? with
      | none => none
      | some op =>
        match parseExpr rest with
        | none => none
        | some (a, rest) =>
          match parseExpr rest with
          | none => none
          | some (b, rest) => some (.bin op a b, rest)
    | ['P'] =>
      match parseExpr rest with
      | none => none
      | some (e, rest) => some (.paren e, rest)
    | 'C' :: f :: n =>
      let fn? : Option Fn := match f with
        | 'r' => some .round | 'f' => some .floor | 'c' => some .ceil | _ => none
      match fn?, (String.ofList n).toNat? with
      | some fn, some k =>
        let rec args (k : Nat) (rest : List String) (acc : List NExpr) : Option (List NExpr × List String) :=
          match k with
          | 0 => some (acc.reverse, rest)
          | k + 1 =>
            match parseExpr rest with
            | none => none
            | some (e, rest) => args k rest (e :: acc)
        match args k rest [] with
        | none => none
        | some (as, rest) => some (.call fn as, rest)
      | _, _ => none
    | _ => none

open Spec.Arith in
def wfB : NExpr → Bool
  | .lit l => decide l.WF
  | .bin op a b => wfB a && wfB b && decide (op.prio ≤ a.prio) && decide (op.prio < b.prio)
  | .paren e => wfB e
  | .call _ args => args.attach.all (fun ⟨a, _⟩ => wfB a)

def cmdExpr (toks : List String) : String :=
  match parseExpr toks with
  | none => "E BAD"
  | some (e, rest) =>
    let layout : List (List Char) := match rest with
      | "|" :: ws => ws.map hexDecode
      | _ => []
    let text := Spec.Arith.renderQuery e layout
    let v := match Spec.Arith.denote e with
      | .ok r => ratStr r
      | .error _ => "ERR"
    s!"E {hexEncode text} {v} {if wfB e then 1 else 0}"

def dispatch (line : String) : String :=
  let parts := line.trimAscii.toString.splitOn " "
  match parts with
  | ["lex", h] => cmdLex (hexDecode h) ++ "\t" ++ specLex (hexDecode h)
  | "expr" :: toks => cmdExpr toks
  | ["unitw", h] => cmdUnitw (hexDecode h)
  | ["factor", a, b, v] => cmdFactor a b v
  | ["mul", a, b, n, l, r] => cmdMul a b n l r
  | ["num", h] => cmdNum (hexDecode h) ++ "\t" ++ specNum (hexDecode h)
  | cmd :: _ => s!"? unknown command {cmd}"
  | [] => "?"

partial def loop (h : IO.FS.Stream) (out : IO.FS.Stream) : IO Unit := do
  let line ← h.getLine
  if line.isEmpty then return ()
  if line.trimAscii.toString.isEmpty then loop h out else
  out.putStrLn (dispatch line)
  loop h out

end Driver

def main : IO Unit := do
  let stdin ← IO.getStdin
  let stdout ← IO.getStdout
  Driver.loop stdin stdout
