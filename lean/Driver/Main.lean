import Anything
/-!
# Line-protocol driver for the model (no Mathlib in the import closure)
-/
open Anything

namespace Driver

def hexVal (c : Char) : Nat :=
  if '0' ≤ c ∧ c ≤ '9' then c.toNat - '0'.toNat
  else if 'a' ≤ c ∧ c ≤ 'f' then c.toNat - 'a'.toNat + 10
  else if 'A' ≤ c ∧ c ≤ 'F' then c.toNat - 'A'.toNat + 10
  else 0

def hexDecodeBytes (s : String) : ByteArray :=
  if s == "-" then ByteArray.empty else
  let rec go (cs : List Char) (acc : ByteArray) : ByteArray :=
    match cs with
    | a :: b :: rest => go rest (acc.push (UInt8.ofNat (hexVal a * 16 + hexVal b)))
    | _ => acc
  go s.toList ByteArray.empty

def hexDecode (s : String) : List Char :=
  match String.fromUTF8? (hexDecodeBytes s) with
  | some str => str.toList
  | none => []

def hexDigit (n : Nat) : Char :=
  if n < 10 then Char.ofNat ('0'.toNat + n) else Char.ofNat ('a'.toNat + n - 10)

def hexEncodeBytes (b : ByteArray) : String :=
  if b.size == 0 then "-" else
  String.ofList (b.toList.flatMap fun x => [hexDigit (x.toNat / 16), hexDigit (x.toNat % 16)])

def hexEncode (s : List Char) : String := hexEncodeBytes (String.ofList s).toUTF8

def ratStr (r : Rat) : String := s!"{r.num}/{r.den}"

def cmdLex (src : List Char) : String :=
  let toks := Lexer.lex src
  "T" ++ String.join (toks.map fun t => s!" {t.kind.name}:{t.len}")

def cmdNum (src : List Char) : String :=
  match Number.fromStr src with
  | some r => s!"N {ratStr r}"
  | none => "N ERR"

/-- Independent spec for `num`: value of the literal if the input is a well-formed
literal without percent sign whose counters fit `u32`; silent otherwise. -/
def specNum (src : List Char) : String :=
  match Spec.Decimal.parse src with
  | some l =>
    if l.percent then "-"
    else if (Spec.Decimal.fracDigits l).length > Number.u32Max then "-"
    else match l.exp with
      | some e => if e.val > Number.u32Max then "-" else s!"N {ratStr (Spec.Decimal.value l)}"
      | none => s!"N {ratStr (Spec.Decimal.value l)}"
  | none => "-"

def specLex (src : List Char) : String := s!"L {utf8Len src}"

def parseInt (s : String) : Int :=
  match s.toList with
  | '-' :: r => -((String.ofList r).toNat!)
  | '+' :: r => (String.ofList r).toNat!
  | _ => s.toNat!

def parseRat (s : String) : Rat :=
  match s.splitOn "/" with
  | [n, d] => (parseInt n : Rat) / (parseInt d : Rat)
  | [n] => (parseInt n : Rat)
  | _ => 0

def parseUnitKey (s : String) : UnitKey :=
  match s.toList with
  | 'D' :: r => .derived (String.ofList r).toNat!
  | _ => match Base.all.find? (fun b => b.name == s) with
    | some b => .base b
    | none => .base .Byte

/-- Canonical unit text `key:power:prefix,...` (or `-`). Entries are inserted through the
model's own sorted insert (the harness builds the `BTreeMap` the same way). -/
def parseUnitCanon (s : String) : Compound :=
  if s == "-" then [] else
  (s.splitOn ",").foldl (fun (c : Compound) e =>
    match e.splitOn ":" with
    | [k, p, x] =>
      let power := parseInt p
      if power == 0 then c else AMap.insert c (parseUnitKey k) { power := power, pfx := parseInt x }
    | _ => c) []

def unitCanon (c : Compound) : String :=
  if c.isEmpty then "-" else
  ",".intercalate (c.map fun e => s!"{e.1.show}:{e.2.power}:{e.2.pfx}")

def cmdUnitw (src : List Char) : String :=
  match UnitWord.parse src with
  | some (rest, p, u) => s!"U {utf8Len rest} {p} {u.show}"
  | none => "U NONE"

def cmdFactor (a b v : String) : String :=
  match Compound.factor (parseUnitCanon a) (parseUnitCanon b) (parseRat v) with
  | .ok (some r) => s!"F OK {ratStr r}"
  | .ok none => "F FALSE"
  | .error _ => "F ERR"

def cmdMul (a b n l r : String) : String :=
  match Compound.mul true (parseUnitCanon a) (parseUnitCanon b) (parseInt n) (parseRat l) (parseRat r) with
  | .ok (c, l', r') => s!"M {unitCanon c} {ratStr l'} {ratStr r'}"
  | .error .conversion => "M ERR"
  | .error .zeroPower => "PANIC zero power"

partial def sexpr : Tree → String
  | .tok _ k t => s!"{k.name}:{utf8Len t}"
  | .node _ k ks => "(" ++ k.name ++ String.join (ks.map fun c => " " ++ sexpr c) ++ ")"

def cmdTree (src : List Char) (unit : Bool) : String :=
  match (if unit then Grammar.parseUnit src else Grammar.parseRoot src) with
  | .ok forest => "S" ++ String.join (forest.map fun t => " " ++ sexpr t)
  | .error e => s!"S ERR {repr e}"

def specTree (src : List Char) : String :=
  "L" ++ String.join ((Lexer.lex src).map fun t => s!" {t.kind.name}:{t.len}")

def showErr : EvalErr → String
  | .err k s e => s!"ERR {k.name} {s} {e}"
  | .panic site => s!"PANIC {site}"
  | .unsupported w => s!"UNSUPPORTED {w}"

def showResult : Except EvalErr Numeric → String
  | .ok n => s!"OK {ratStr n.value} {unitCanon n.unit}"
  | .error e => showErr e

/-- Lookup table supplied by the harness run (`db` lines): phrase ↦ result. -/
abbrev DbTable := List (List Char × Option Fact)

def cmdQuery (tbl : DbTable) (src : List Char) (describe : Bool) : String :=
  let db : Db := fun phrase =>
    match tbl.find? (fun e => e.1 == phrase) with
    | some (_, some f) => .found f
    | some (_, none) => .nothing
    | none => .error
  match Eval.query { db := db, describe := describe, debug := true } src with
  | .error e => s!"R TREEERR {repr e}"
  | .ok (rs, descs) =>
    let body := " | ".intercalate (rs.map showResult)
    let d := if describe then
        " # D" ++ String.join (descs.map fun x => s!" {hexEncode x.phrase}=>{hexEncode x.description}")
      else ""
    "R " ++ body ++ d

/-- Phrases the evaluator may look up: SENTENCE nodes and WORD nodes outside UNIT /
SENTENCE / FN_NAME. -/
partial def phrasesOf (parent : Syntax) : Tree → List (List Char)
  | .tok _ k t => if parent == .EOF && k == .WORD then [t] else []
  | .node i k ks =>
    let here := if k == .SENTENCE || (k == .WORD && parent != .UNIT && parent != .SENTENCE && parent != .FN_NAME)
      then [(Tree.node i k ks).text] else []
    here ++ (ks.flatMap (phrasesOf k))

def cmdPhrases (src : List Char) : String :=
  match Grammar.parseRoot src with
  | .ok forest => "P" ++ String.join ((forest.flatMap (phrasesOf .EOF)).map fun p => " " ++ hexEncode p)
  | .error _ => "P"

/-- `cli`: the model of the binary's result loop applied to the model's query results. -/
def cmdCli (tbl : DbTable) (src : List Char) (exact : Bool) : String :=
  let db : Db := fun phrase =>
    match tbl.find? (fun e => e.1 == phrase) with
    | some (_, some f) => .found f
    | some (_, none) => .nothing
    | none => .error
  match Eval.query { db := db, describe := false, debug := true } src with
  | .error e => s!"O TREEERR {repr e}"
  | .ok (rs, _) =>
    let items := (Cli.render exact rs).map fun it => match it with
      | .line t => "L" ++ hexEncode t
      | .diagnostic k s _ => s!"D{k.name}:{s}"
      | .other w => s!"?{w}"
    "O " ++ (if items.isEmpty then "-" else "|".intercalate items) ++ " X0"

/-- All error kinds, to read one back from its name. -/
def allErrKinds : List ErrKind :=
  [.syntaxError, .divideByZero, .lookupError, .illegalOperation, .conversionNotPossible, .illegalCast,
   .parseRational, .badNumber, .unexpected, .expected, .missing, .illegalUnit, .missingFunction,
   .argumentMismatch, .badArgument, .nonFinite, .missingNode, .prefixMismatch, .illegalUnitNumber,
   .illegalPowerUnit, .illegalPowerNonInteger, .treeError]

/-- One item of a result line as the harness prints it (`OK n/d unit` | `ERR kind s e`). -/
def parseResultItem (it : String) : Except EvalErr Numeric :=
  match it.trimAscii.toString.splitOn " " with
  | ["OK", v, u] => .ok { value := parseRat v, unit := parseUnitCanon u }
  | ["ERR", k, s, e] =>
    match allErrKinds.find? (fun x => x.name == k) with
    | some kind => .error (.err kind s.toNat! e.toNat!)
    | none => .error (.unsupported k)
  | _ => .error (.unsupported it)

/-- `render`: the model of the binary's result loop applied to results the LIBRARY computed
(the harness's `query` answer), so that a difference between this and what the binary
printed is a printing fault and nothing else. -/
def cmdRender (resultLine : String) (exact : Bool) : String :=
  let body := if resultLine.startsWith "R " then (resultLine.drop 2).toString else resultLine
  let rs : List (Except EvalErr Numeric) :=
    if body.trimAscii.toString.isEmpty then [] else (body.splitOn " | ").map parseResultItem
  let items := (Cli.render exact rs).map fun it => match it with
    | .line t => "L" ++ hexEncode t
    | .diagnostic k s _ => s!"D{k.name}:{s}"
    | .other w => s!"?{w}"
  "O " ++ (if items.isEmpty then "-" else "|".intercalate items) ++ " X0"

/-! ### `cbor` -/
def bytesHex (b : List Nat) : String :=
  if b.isEmpty then "-" else String.ofList (b.flatMap fun x => [hexDigit (x / 16), hexDigit (x % 16)])

def hexToBytes (s : String) : List Nat := (hexDecodeBytes s).toList.map (·.toNat)

def compoundEq (a b : Compound) : Bool :=
  a.length == b.length && (a.zip b).all (fun (x, y) => x.1 == y.1 && x.2.power == y.2.power && x.2.pfx == y.2.pfx)

def cmdCbor (args : List String) : String :=
  match args with
  | ["rat", v] =>
    let r := parseRat v
    let bytes := Cbor.encode (Cbor.encRat r)
    let rt := match (Cbor.decodeAll bytes).bind Cbor.decRat with
      | some r' => r' == r
      | none => false
    let js := Cbor.jsonRat r
    s!"B {bytesHex bytes} {if rt then "rt" else "RTFAIL"} {hexEncode js} rt"
  | ["unit", u] =>
    let c := parseUnitCanon u
    let bytes := Cbor.encode (Cbor.encCompound c)
    let rt := match (Cbor.decodeAll bytes).bind Cbor.decCompound with
      | some c' => compoundEq c c'
      | none => false
    s!"B {bytesHex bytes} {if rt then "rt" else "RTFAIL"}"
  | ["derat", h] =>
    match (Cbor.decodeAll (hexToBytes h)).bind Cbor.decRat with
    | some r => s!"B OK {ratStr r}"
    | none => "B ERR"
  | ["deunit", h] =>
    match (Cbor.decodeAll (hexToBytes h)).bind Cbor.decCompound with
    | some c => s!"B OK {unitCanon c}"
    | none => "B ERR"
  | ["const", src, toks, desc, v, u] =>
    let c : Cbor.Constant := {
      source := if src == "-" then none else some src.toNat!,
      tokens := if toks == "-" then [] else (toks.splitOn ";").map hexDecode,
      description := hexDecode desc, value := parseRat v, unit := parseUnitCanon u }
    let bytes := Cbor.encode (Cbor.encConstant c)
    let rt := match (Cbor.decodeAll bytes).bind Cbor.decConstant with
      | some c' => c'.source == c.source && c'.tokens == c.tokens && c'.description == c.description
          && c'.value == c.value && compoundEq c'.unit c.unit
      | none => false
    s!"B {bytesHex bytes} {if rt then "rt" else "RTFAIL"}"
  | _ => "B ?"

def cmdUnit (src : List Char) : String :=
  match Eval.compoundFromStr src with
  | .error e => s!"C TREEERR {repr e}"
  | .ok (.ok c) => s!"C {unitCanon c}"
  | .ok (.error (.err k _ _)) => s!"C ERR {k.name}"
  | .ok (.error e) => s!"C {showErr e}"

/-! ### `expr`: spec-side rendering and denotation of a generated expression -/
open Spec.Arith in
partial def parseExpr : List String → Option (NExpr × List String)
  | [] => none
  | t :: rest =>
    match t.toList with
    | 'L' :: h =>
      match Spec.Decimal.parse (hexDecode (String.ofList h)) with
      | some l => some (.lit l, rest)
      | none => none
    | ['B', c] =>
      let op? : Option BinOp := match c with
        | '+' => some .add | '-' => some .sub | '*' => some .mul | '/' => some .div | '^' => some .pow
        | _ => none
      match op? with
      | none => none
      | some op =>
        match parseExpr rest with
        | none => none
        | some (a, rest) =>
          match parseExpr rest with
          | none => none
          | some (b, rest) => some (.bin op a b, rest)
    | ['P'] =>
      match parseExpr rest with
      | none => none
      | some (e, rest) => some (.paren e, rest)
    | 'C' :: f :: n =>
      let fn? : Option Fn := match f with
        | 'r' => some .round | 'f' => some .floor | 'c' => some .ceil | _ => none
      match fn?, (String.ofList n).toNat? with
      | some fn, some k =>
        let rec args (k : Nat) (rest : List String) (acc : List NExpr) : Option (List NExpr × List String) :=
          match k with
          | 0 => some (acc.reverse, rest)
          | k + 1 =>
            match parseExpr rest with
            | none => none
            | some (e, rest) => args k rest (e :: acc)
        match args k rest [] with
        | none => none
        | some (as, rest) => some (.call fn as, rest)
      | _, _ => none
    | _ => none

open Spec.Arith in
def wfB : NExpr → Bool
  | .lit l => decide l.WF
  | .bin op a b => wfB a && wfB b && decide (op.prio ≤ a.prio) && decide (op.prio < b.prio)
  | .paren e => wfB e
  | .call _ args => args.attach.all (fun ⟨a, _⟩ => wfB a)

/-! ### `qexpr`: quantity expressions -/
def parseCanonTriples (s : String) : List (UnitKey × Int × Int) :=
  if s == "-" then [] else
  (s.splitOn ",").filterMap fun e =>
    match e.splitOn ":" with
    | [k, p, x] => some (parseUnitKey k, parseInt p, parseInt x)
    | _ => none


def parseTerms (s : String) : List Spec.Quantity.RTerm :=
  if s == "-" then [] else
  (s.splitOn ",").filterMap fun e =>
    match e.splitOn ":" with
    | [p, n, k] => some { pfxLit := hexDecode p, nameLit := hexDecode n, power := parseInt k }
    | _ => none

open Spec.Quantity in
partial def parseQExpr : List String → Option (QExpr × List String)
  | [] => none
  | t :: rest =>
    match t.toList with
    | 'L' :: h =>
      match Spec.Decimal.parse (hexDecode (String.ofList h)) with
      | some l => some (.num l, rest)
      | none => none
    | 'Q' :: h =>
      match (String.ofList h).splitOn ";" with
      | [lh, ts] =>
        match Spec.Decimal.parse (hexDecode lh) with
        | some l => some (.qty l (parseTerms ts), rest)
        | none => none
      | _ => none
    | ['B', c] =>
      let op? : Option Spec.Arith.BinOp := match c with
        | '+' => some .add | '-' => some .sub | '*' => some .mul | '/' => some .div | '^' => some .pow
        | _ => none
      match op? with
      | none => none
      | some op =>
        match parseQExpr rest with
        | none => none
        | some (a, rest) =>
          match parseQExpr rest with
          | none => none
          | some (b, rest) => some (.bin op a b, rest)
    | ['P'] =>
      match parseQExpr rest with
      | none => none
      | some (e, rest) => some (.paren e, rest)
    | 'T' :: ts =>
      match parseQExpr rest with
      | none => none
      | some (e, rest) => some (.cast e (parseTerms (String.ofList ts)), rest)
    | 'F' :: h =>
      match (String.ofList h).splitOn ";" with
      | [ph, v, u] => some (.fact (hexDecode ph) (parseRat v) (parseCanonTriples u), rest)
      | _ => none
    | _ => none

def dimsStr (d : Spec.SI.DimVec) : String := ",".intercalate (d.map toString)

def semCanon (sem : Spec.SI.UnitSem) : String :=
  -- the canonical unit the tool is expected to report for a cast / adopted unit
  unitCanon (sem.foldl (fun (c : Compound) t =>
    match AMap.get? c t.key with
    | none => AMap.insert c t.key { power := t.power, pfx := t.pfx }
    | some st => if st.power + t.power = 0 then AMap.erase c t.key
                 else AMap.insert c t.key { st with power := st.power + t.power }) [])

def cmdQExpr (toks : List String) : String :=
  match parseQExpr toks with
  | none => "E BAD"
  | some (e, rest) =>
    let layout : List (List Char) := match rest with
      | "|" :: ws => ws.map hexDecode
      | _ => []
    let text := Spec.Quantity.renderQuery e layout
    let show1 (r : Except Spec.SI.QErr Spec.Quantity.Val) : String := match r with
      | .ok v =>
        let u := match v.unit with | some sem => semCanon sem | none => "?"
        s!"OK {ratStr v.q.si} {dimsStr v.q.dim} {u}"
      | .error err => s!"ERR {repr err}"
    match Spec.Quantity.denote false e with
    | .error .offsetScale =>
      -- C09 allows refusal or the interval reading for compound uses of an offset scale
      s!"E {hexEncode text} ERR offsetScale alt {show1 (Spec.Quantity.denote true e)}"
    | r => s!"E {hexEncode text} {show1 r}"

/-- `si <n/d> <canon unit>`: SI reading of a result (proportional part only). -/
def cmdSi (v u : String) : String :=
  let triples := parseCanonTriples u
  let q := Spec.SI.siOfResult (parseRat v) triples
  -- a lone offset scale with power one is a point on that scale
  let si := match triples with
    | [(k, 1, x)] => if Spec.SI.isAffine k then Spec.SI.pointToKelvin k x (parseRat v) else q.si
    | _ => q.si
  s!"Q {ratStr si} {dimsStr q.dim}"

/-- Vocabulary dump for the generators: one record per literal, `;`-separated. -/
def cmdVocab : String :=
  let names := Generated.unitsOnly.filterMap fun (lit, act) =>
    match act with
    | .unit k bias =>
      some s!"N {hexEncode lit} {k.show} {bias} {dimsStr (Spec.SI.dimsOf k)} {ratStr (Spec.SI.linFactor k)} {if Spec.SI.isAffine k then 1 else 0}"
    | _ => none
  let pfxs := Generated.combined.filterMap fun (lit, act) =>
    match act with
    | .pfx p alone => some s!"P {hexEncode lit} {p} {if alone.isSome then 1 else 0}"
    | _ => none
  let comb := Generated.combined.filterMap fun (lit, act) =>
    match act with
    | .unit k bias => some s!"C {hexEncode lit} {k.show} {bias}"
    | _ => none
  "V " ++ ";".intercalate (names ++ pfxs ++ comb)

def cmdWord (src : List Char) : String :=
  match UnitWord.parseWord src with
  | some l => "W " ++ (if l.isEmpty then "-" else ",".intercalate (l.map fun (p, k) => s!"{p}:{k.show}"))
  | none => "W NONE"

def cmdExpr (toks : List String) : String :=
  match parseExpr toks with
  | none => "E BAD"
  | some (e, rest) =>
    let layout : List (List Char) := match rest with
      | "|" :: ws => ws.map hexDecode
      | _ => []
    let text := Spec.Arith.renderQuery e layout
    let v := match Spec.Arith.denote e with
      | .ok r => ratStr r
      | .error _ => "ERR"
    s!"E {hexEncode text} {v} {if wfB e then 1 else 0}"

def dispatch (tbl : DbTable) (line : String) : String :=
  let parts := line.trimAscii.toString.splitOn " "
  match parts with
  | ["lex", h] => cmdLex (hexDecode h) ++ "\t" ++ specLex (hexDecode h)
  | "expr" :: toks => cmdExpr toks
  | "qexpr" :: toks => cmdQExpr toks
  | ["si", v, u] => cmdSi v u
  | ["disp", n, d, limit, explimit, c] =>
    let r : Rat := (parseInt n : Rat) / (parseInt d : Rat)
    "S " ++ String.ofList (Display.fmt { limit := limit.toNat!, exponentLimit := explimit.toNat!, showContinuation := c == "1" } r)
  | ["readback", h, n, d] =>
    "V " ++ Spec.Printed.verdict ((parseInt n : Rat) / (parseInt d : Rat)) (hexDecode h)
  | ["unitdisp", u, pl] =>
    let c := parseUnitCanon u
    s!"P {hexEncode (UnitDisplay.compound c (pl == "1"))} {if Compound.hasNumerator c then 1 else 0}"
  | ["clival", mode, v, u] =>
    "O " ++ hexEncode (Cli.renderValue (mode == "exact") { value := parseRat v, unit := parseUnitCanon u })
  | ["recover", prior, cps] =>
    match Recovery.prior prior with
    | none => "M ?"
    | some d0 =>
      -- `full` = a complete start, `mem` = an in-memory session, a number = a start killed there,
      -- `f<n>` / `ffull` = a start of another build of the same version with other data
      let events : List Recovery.Event := (cps.splitOn ",").map fun c =>
        if c == "full" then .start none else if c == "mem" then .memSession
        else if c == "ffull" then .foreign false none
        else if c.startsWith "f" then .foreign false (some (c.drop 1).toNat!)
        else .start (some c.toNat!)
      let (d, trace) := events.foldl (fun (acc : Recovery.Dir × List String) e =>
        let d' := Recovery.event acc.1 e
        (d', acc.2 ++ [d'.md.show])) (d0, [])
      let fin := Recovery.run d none
      s!"M {",".intercalate trace} F {fin.dir.md.show} {if fin.answers == some true then "ANSWERS-FRESH" else "ANSWERS-DIFFER"}"
  | ["refcheck"] =>
    -- every unit-name literal and every prefix literal of the extracted tables against the reference
    let names := (Generated.unitsOnly ++ Generated.combined).filterMap fun (lit, act) =>
      match act with
      | .unit k bias => some s!"{hexEncode lit}={Spec.UnitRef.checkName lit k bias}"
      | _ => none
    let pfx := Generated.combined.filterMap fun (lit, act) =>
      match act with
      | .pfx p _ => some s!"{hexEncode lit}={if Spec.UnitRef.refPrefix lit == some p then "OK" else "BAD prefix"}"
      | _ => none
    "F " ++ ";".intercalate (names ++ pfx)
  | ["refdump"] =>
    -- the human reference table itself: name, dimension vector, admissible scales
    let rows := Spec.UnitRef.table.flatMap fun r => r.names.map fun n =>
      s!"{hexEncode n.toList}={",".intercalate (r.dims.map toString)}={"|".intercalate (r.scales.map ratStr)}={if r.selfDocumented then 1 else 0}"
    "F " ++ ";".intercalate rows
  | ["readings", h] =>
    let w := hexDecode h
    let rs := (Spec.Words.readings (w.length + 1) w).filterMap Spec.Words.compoundOf
    "G " ++ (if rs.isEmpty then "NONE" else " ".intercalate (rs.map unitCanon).eraseDups)
  | ["vocab"] => cmdVocab
  | ["word", h] => cmdWord (hexDecode h)
  | ["tree", h] => cmdTree (hexDecode h) false ++ "\t" ++ specTree (hexDecode h)
  | ["utree", h] => cmdTree (hexDecode h) true
  | ["phrases", h] => cmdPhrases (hexDecode h)
  | ["query", h] => cmdQuery tbl (hexDecode h) false
  | ["query", h, "describe"] => cmdQuery tbl (hexDecode h) true
  | ["unit", h] => cmdUnit (hexDecode h)
  | "cbor" :: args => cmdCbor args
  | ["cli", h, mode] => cmdCli tbl (hexDecode h) (mode == "exact")
  | ["render", h, mode] => cmdRender (String.ofList (hexDecode h)) (mode == "exact")
  | ["unitw", h] => cmdUnitw (hexDecode h)
  | ["factor", a, b, v] => cmdFactor a b v
  | ["mul", a, b, n, l, r] => cmdMul a b n l r
  | ["num", h] => cmdNum (hexDecode h) ++ "\t" ++ specNum (hexDecode h)
  | cmd :: _ => s!"? unknown command {cmd}"
  | [] => "?"

/-- `db <hexphrase> NONE` or `db <hexphrase> <n/d> <unit> <hexdesc>` extends the lookup table. -/
def dbLine (parts : List String) : Option (List Char × Option Fact) :=
  match parts with
  | ["db", h, "NONE"] => some (hexDecode h, none)
  | ["db", h, v, u, d] =>
    some (hexDecode h, some { value := parseRat v, unit := parseUnitCanon u, description := hexDecode d })
  | _ => none

partial def loop (h : IO.FS.Stream) (out : IO.FS.Stream) (tbl : DbTable) : IO Unit := do
  let line ← h.getLine
  if line.isEmpty then return ()
  let trimmed := line.trimAscii.toString
  if trimmed.isEmpty then loop h out tbl else
  match dbLine (trimmed.splitOn " ") with
  | some e =>
    out.putStrLn "DB"
    out.flush
    loop h out (e :: tbl)
  | none =>
    out.putStrLn (dispatch tbl line)
    out.flush
    loop h out tbl

end Driver

def main : IO Unit := do
  let stdin ← IO.getStdin
  let stdout ← IO.getStdout
  Driver.loop stdin stdout []
