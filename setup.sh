#!/bin/sh
# MANIFEST.setup_cmd: build the framework offline from files on disk only.
set -e
cd "$(dirname "$0")"
export CARGO_NET_OFFLINE=true
(cd harness && cargo build --offline 2>&1 | tail -2)
(cd harness && cargo build --offline --release 2>&1 | tail -2)
(cd lean && lake build 2>&1 | tail -3)
echo "setup done"
