#!/bin/sh
# MANIFEST.setup_cmd: build the framework offline from files on disk only.
set -e
cd "$(dirname "$0")"
export CARGO_NET_OFFLINE=true
(cd harness && cargo build --offline 2>&1 | tail -2)
(cd harness && cargo build --offline --release 2>&1 | tail -2)
(cd lean && lake build 2>&1 | tail -3)
# the property modules (theorems): built here once so that the checks only re-check what a
# change to /repo's tables invalidates; a module that fails to build is reported by its check
(cd lean && lake build $(ls Anything/Props/*.lean | sed 's|/|.|g; s|\.lean$||') 2>&1 | tail -3) || true
echo "setup done"
