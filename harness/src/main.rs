//! Correspondence harness: runs the real `anything` code in-process on one
//! case per input line and prints one canonical line per case.
//!
//! Protocol: see /verif/DESIGN.md, Appendix B (as implemented).

use std::io::{self, BufRead, Write};
use std::iter::FromIterator;
use std::panic::{catch_unwind, AssertUnwindSafe};

use anything::syntax::lexer::Lexer;
use anything::syntax::parser::{Parser, Syntax};
use anything::{Compound, Db, Rational, Unit};

mod canon;
mod cbor;
mod dbx;

use canon::*;

fn cmd_lex(src: &str) -> String {
    let mut out = String::from("T");
    for t in Lexer::new(src) {
        out.push_str(&format!(" {:?}:{}", t.kind, t.len));
    }
    out
}

fn sexpr(node: syntree::Node<'_, Syntax, u32, u32>, out: &mut String) {
    if node.has_children() || !is_token_kind(*node.value()) {
        out.push('(');
        out.push_str(&format!("{:?}", node.value()));
        for c in node.children() {
            out.push(' ');
            sexpr(c, out);
        }
        out.push(')');
    } else {
        out.push_str(&format!("{:?}:{}", node.value(), node.span().len()));
    }
}

fn is_token_kind(k: Syntax) -> bool {
    use Syntax::*;
    matches!(
        k,
        WHITESPACE
            | STAR
            | STARSTAR
            | SLASH
            | PLUS
            | DASH
            | CARET
            | COMMA
            | OPEN_PAREN
            | CLOSE_PAREN
            | OPEN_BRACE
            | CLOSE_BRACE
            | TO
    )
}

/// S-expression of the syntax tree. Nodes are printed as `(KIND kids…)`, tokens as
/// `KIND:len`. A node kind that is also a token kind (WORD, NUMBER, PERCENTAGE,
/// ERROR) is told apart by the arena: nodes opened by `open`/`close_at` have
/// children or a zero-length point span.
fn cmd_tree(src: &str, unit: bool) -> String {
    let p = Parser::new(src);
    let tree = if unit { p.parse_unit() } else { p.parse_root() };
    match tree {
        Ok(tree) => {
            let mut out = String::from("S");
            for c in tree.children() {
                out.push(' ');
                sexpr2(c, &mut out);
            }
            out
        }
        Err(e) => format!("S ERR {:?}", e),
    }
}

/// Tokens always have non-empty spans (the lexer never yields an empty token)
/// and no children; nodes either have children or are empty.
fn sexpr2(node: syntree::Node<'_, Syntax, u32, u32>, out: &mut String) {
    if node.has_children() || node.span().len() == 0 {
        out.push('(');
        out.push_str(&format!("{:?}", node.value()));
        for c in node.children() {
            out.push(' ');
            sexpr2(c, out);
        }
        out.push(')');
    } else {
        out.push_str(&format!("{:?}:{}", node.value(), node.span().len()));
    }
}

fn cmd_num(src: &str) -> String {
    match str::parse::<Rational>(src) {
        Ok(r) => format!("N {}", rat(&r)),
        Err(_) => "N ERR".to_string(),
    }
}

fn cmd_query(db: &Db, src: &str, describe: bool) -> String {
    let parsed = match anything::parse(src) {
        Ok(p) => p,
        Err(e) => return format!("R TREEERR {:?}", e.to_string()),
    };
    let options = anything::Options::default();
    let options = if describe { options.describe() } else { options };
    let mut descriptions = Vec::new();
    let mut items = Vec::new();
    for r in anything::query(&parsed, db, options, &mut descriptions) {
        match r {
            Ok(n) => {
                // every value must be displayable (C11): render it the way the binary does
                let mut spec = anything::rational::DisplaySpec::default();
                spec.limit = 12;
                spec.exponent_limit = 12;
                let _ = n.value.display(&spec).to_string();
                let _ = n.unit.display(true).to_string();
                let _ = n.unit.display(false).to_string();
                items.push(format!("OK {} {}", rat(&n.value), unit_canon(&n.unit)))
            }
            Err(e) => {
                let range = e.range();
                items.push(format!(
                    "ERR {} {} {}",
                    err_kind(&e.to_string()),
                    range.start,
                    range.end
                ));
            }
        }
    }
    let mut out = String::from("R ");
    out.push_str(&items.join(" | "));
    if describe {
        out.push_str(" # D");
        for d in descriptions {
            match d {
                anything::Description::Constant(q, c) => {
                    out.push_str(&format!(
                        " {}=>{}",
                        hex_encode(q.as_bytes()),
                        hex_encode(c.description.as_bytes())
                    ));
                }
            }
        }
    }
    out
}

fn cmd_disp(args: &[&str]) -> String {
    let n: num::BigInt = args[0].parse().unwrap();
    let d: num::BigInt = args[1].parse().unwrap();
    let limit: usize = args[2].parse().unwrap();
    let exp: usize = args[3].parse().unwrap();
    let cont = args[4] == "1";
    let r = Rational::new(n, d);
    let mut spec = anything::rational::DisplaySpec::default();
    spec.limit = limit;
    spec.exponent_limit = exp;
    spec.show_continuation = cont;
    let s = r.display(&spec).to_string();
    format!("S {}", s)
}

fn cmd_unitw(src: &str) -> String {
    match anything::verif::parse_unit_word(src) {
        Some((rest, prefix, unit)) => format!("U {} {} {}", rest.len(), prefix, unit_key(&unit)),
        None => "U NONE".to_string(),
    }
}

fn cmd_unit(src: &str) -> String {
    match str::parse::<Compound>(src) {
        Ok(c) => format!("C {}", unit_canon(&c)),
        Err(e) => format!("C ERR {}", err_kind(&e.to_string())),
    }
}

fn cmd_factor(args: &[&str]) -> String {
    let a = parse_unit_canon(args[0]);
    let b = parse_unit_canon(args[1]);
    let mut v = parse_rat(args[2]);
    match anything::verif::factor(&a, &b, &mut v) {
        Ok(true) => format!("F OK {}", rat(&v)),
        Ok(false) => "F FALSE".to_string(),
        Err(()) => "F ERR".to_string(),
    }
}

fn cmd_mul(args: &[&str]) -> String {
    let a = parse_unit_canon(args[0]);
    let b = parse_unit_canon(args[1]);
    let n: i32 = args[2].parse().unwrap();
    let mut l = parse_rat(args[3]);
    let mut r = parse_rat(args[4]);
    match anything::verif::mul(&a, &b, n, &mut l, &mut r) {
        Ok(c) => format!("M {} {} {}", unit_canon(&c), rat(&l), rat(&r)),
        Err(()) => "M ERR".to_string(),
    }
}

/// Information on one derived unit (by id): powers for p in -3..=3, conversion,
/// singular / plural display name.
fn cmd_unitinfo(id: &str) -> String {
    let id: u32 = id.parse().unwrap();
    let d = match anything::verif::id_to_derived(id) {
        Some(d) => d,
        None => return "I NONE".to_string(),
    };
    let u = Unit::Derived(d);
    let mut out = format!("I {}", d.id);
    for p in -3..=3 {
        let mut powers = anything::Powers::default();
        let derived = u.powers(&mut powers, p);
        out.push_str(&format!(" p{}={}", p, if derived { "" } else { "!" }));
        let v: Vec<String> = powers
            .iter()
            .map(|(u, p)| format!("{}:{}", unit_key(&u), p))
            .collect();
        out.push_str(&v.join(","));
    }
    match anything::verif::conversion_of(&u) {
        None => out.push_str(" conv=none"),
        Some((0, n, d)) => out.push_str(&format!(" conv=factor:{}/{}", n, d)),
        Some((1, n, d)) => out.push_str(&format!(" conv=offset:{}/{}", n, d)),
        Some((_, _, _)) => {
            // Probe the affine methods at two points each to recover slope/intercept.
            let probe = |to: bool, x: i64| {
                let mut v = Rational::new(x, 1);
                anything::verif::apply_methods(&u, to, &mut v);
                rat(&v)
            };
            out.push_str(&format!(
                " conv=methods:to0={},to1={},to2={},from0={},from1={},from2={}",
                probe(true, 0),
                probe(true, 1),
                probe(true, 2),
                probe(false, 0),
                probe(false, 1),
                probe(false, 2)
            ));
        }
    }
    let c1 = Compound::from_iter([(u, (1, 0))]);
    out.push_str(&format!(
        " sing={} plur={}",
        hex_encode(c1.display(false).to_string().as_bytes()),
        hex_encode(c1.display(true).to_string().as_bytes())
    ));
    out
}

fn cmd_unitdisp(args: &[&str]) -> String {
    let a = parse_unit_canon(args[0]);
    let pl = args[1] == "1";
    format!(
        "P {} {}",
        hex_encode(a.display(pl).to_string().as_bytes()),
        if a.has_numerator() { 1 } else { 0 }
    )
}

fn cmd_prefixfind(arg: &str) -> String {
    // Prefix::find is private; observe it through the unit display of a byte unit.
    let p: i32 = arg.parse().unwrap();
    let c = Compound::from_iter([(Unit::Byte, (1, p))]);
    format!("X {}", hex_encode(c.to_string().as_bytes()))
}

/// Run the real `any` binary (path in VERIF_ANY_BIN) on a query and reduce its
/// stdout to items: `L<hex line>` for a result line, `D<kind>:<line>:<col>` for a diagnostic.
fn cmd_cli(query: &str, exact: bool) -> String {
    cmd_cli_args(query, exact, false)
}

/// The description block `any --describe` must print for a query, composed independently from
/// the LIBRARY's descriptions and the database's source records: one line per looked-up
/// constant, `"<phrase>" => <description>` followed by ` (<source>) <<url>>` when the constant
/// has a source with a URL, `(<source>)` when it has one without, nothing when it has none.
fn cmd_libdesc(db: &Db, src: &str) -> String {
    let parsed = match anything::parse(src) {
        Ok(p) => p,
        Err(e) => return format!("E TREEERR {:?}", e.to_string()),
    };
    let mut descriptions = Vec::new();
    for _ in anything::query(&parsed, db, anything::Options::default().describe(), &mut descriptions) {}
    let mut lines = Vec::new();
    for d in descriptions {
        match d {
            anything::Description::Constant(q, c) => {
                let mut l = format!("{:?} => {}", q, c.description);
                if let Some(s) = c.source.and_then(|id| db.get_source(id)) {
                    match &s.url {
                        Some(url) => l.push_str(&format!(" ({}) <{}>", s.description, url)),
                        None => l.push_str(&format!("({})", s.description)),
                    }
                }
                lines.push(hex_encode(l.as_bytes()));
            }
        }
    }
    format!("E {}", if lines.is_empty() { "-".to_string() } else { lines.join("|") })
}

/// What `any --describe <query>` prints after the header of its description block.
fn cmd_clidesc(query: &str) -> String {
    let bin = std::env::var("VERIF_ANY_BIN").expect("VERIF_ANY_BIN");
    let xdg = std::env::var("VERIF_XDG").expect("VERIF_XDG");
    let mut cmd = std::process::Command::new(bin);
    cmd.arg("--describe").arg("--").arg(query);
    cmd.env("XDG_DATA_HOME", &xdg).env("HOME", &xdg).env("NO_COLOR", "1").env("TERM", "dumb");
    cmd.env_remove("RUST_LOG");
    let out = match cmd.output() {
        Ok(o) => o,
        Err(e) => return format!("E SPAWNERR {}", e),
    };
    let stdout = String::from_utf8_lossy(&out.stdout).to_string();
    let mut lines = Vec::new();
    let mut inside = false;
    for l in stdout.split('\n') {
        if l.starts_with("# Description of constants used") {
            inside = true;
        } else if inside && !l.is_empty() {
            lines.push(hex_encode(l.as_bytes()));
        }
    }
    format!("E {}", if lines.is_empty() { "-".to_string() } else { lines.join("|") })
}

/// `split`: the query is handed over as several arguments (split at single spaces), the way a
/// shell passes `any 2 m + 3 m`; the program joins them again.
fn cmd_cli_args(query: &str, exact: bool, split: bool) -> String {
    let bin = std::env::var("VERIF_ANY_BIN").expect("VERIF_ANY_BIN");
    let xdg = std::env::var("VERIF_XDG").expect("VERIF_XDG");
    let mut cmd = std::process::Command::new(bin);
    if exact {
        cmd.arg("--exact");
    }
    cmd.arg("--");
    if split {
        for w in query.split(' ') {
            cmd.arg(w);
        }
    } else {
        cmd.arg(query);
    }
    cmd.env("XDG_DATA_HOME", &xdg).env("HOME", &xdg).env("NO_COLOR", "1").env("TERM", "dumb");
    cmd.env_remove("RUST_LOG");
    let out = match cmd.output() {
        Ok(o) => o,
        Err(e) => return format!("O SPAWNERR {}", e),
    };
    let stdout = String::from_utf8_lossy(&out.stdout).to_string();
    let mut items = Vec::new();
    let mut lines = stdout.split('\n').peekable();
    while let Some(l) = lines.next() {
        if let Some(msg) = l.strip_prefix("error: ") {
            // diagnostic block: `  ┌─ <in>:L:C`, source lines, until a blank line
            let mut pos = String::from("?");
            while let Some(n) = lines.peek() {
                if n.is_empty() {
                    lines.next();
                    break;
                }
                if let Some(i) = n.find("<in>:") {
                    pos = n[i + 5..].trim().to_string();
                }
                lines.next();
            }
            items.push(format!("D{}:{}", err_kind(msg), pos));
        } else if l.is_empty() && lines.peek().is_none() {
            // trailing newline
        } else {
            items.push(format!("L{}", hex_encode(l.as_bytes())));
        }
    }
    format!(
        "O {} X{}",
        if items.is_empty() { "-".to_string() } else { items.join("|") },
        out.status.code().unwrap_or(-1)
    )
}

fn dispatch(db: &mut Option<Db>, line: &str) -> String {
    let parts: Vec<&str> = line.split(' ').collect();
    let cmd = parts[0];
    let arg = |i: usize| -> String {
        String::from_utf8(hex_decode(parts.get(i).copied().unwrap_or(""))).unwrap()
    };
    match cmd {
        "lex" => cmd_lex(&arg(1)),
        "tree" => cmd_tree(&arg(1), false),
        "utree" => cmd_tree(&arg(1), true),
        "num" => cmd_num(&arg(1)),
        "query" => {
            if db.is_none() {
                *db = Some(dbx::open_memory());
            }
            cmd_query(
                db.as_ref().unwrap(),
                &arg(1),
                parts.get(2).copied() == Some("describe"),
            )
        }
        "disp" => cmd_disp(&parts[1..]),
        "unitw" => cmd_unitw(&arg(1)),
        "unit" => cmd_unit(&arg(1)),
        "factor" => cmd_factor(&parts[1..]),
        "mul" => cmd_mul(&parts[1..]),
        "unitinfo" => cmd_unitinfo(parts[1]),
        "unitdisp" => cmd_unitdisp(&parts[1..]),
        "prefixfind" => cmd_prefixfind(parts[1]),
        "lookup" => {
            if db.is_none() {
                *db = Some(dbx::open_memory());
            }
            dbx::cmd_lookup(db.as_ref().unwrap(), &arg(1))
        }
        "cbor" => cbor::cmd_cbor(&parts[1..]),
        "db" => "DB".to_string(),
        "cli" => cmd_cli(&arg(1), parts.get(2).copied() == Some("exact")),
        "clisplit" => cmd_cli_args(&arg(1), parts.get(2).copied() == Some("exact"), true),
        "clidesc" => cmd_clidesc(&arg(1)),
        "libdesc" => {
            if db.is_none() {
                *db = Some(dbx::open_memory());
            }
            cmd_libdesc(db.as_ref().unwrap(), &arg(1))
        }
        _ => format!("? unknown command {}", cmd),
    }
}

/// Watchdog mode: run the cases in a child worker; a case that does not answer
/// within the time limit is reported as `TIMEOUT` and the worker is replaced.
fn watchdog(secs: u64) {
    use std::process::{Child, Command, Stdio};
    use std::sync::mpsc;
    use std::time::Duration;

    fn spawn() -> (Child, mpsc::Receiver<String>) {
        let exe = std::env::current_exe().unwrap();
        let mut child = Command::new(exe)
            .arg("--worker")
            .stdin(Stdio::piped())
            .stdout(Stdio::piped())
            .stderr(Stdio::null())
            .spawn()
            .expect("spawn worker");
        let out = child.stdout.take().unwrap();
        let (tx, rx) = mpsc::channel();
        std::thread::spawn(move || {
            let r = io::BufReader::new(out);
            for line in r.lines() {
                match line {
                    Ok(l) => {
                        if tx.send(l).is_err() {
                            break;
                        }
                    }
                    Err(_) => break,
                }
            }
        });
        (child, rx)
    }

    let stdin = io::stdin();
    let stdout = io::stdout();
    let mut out = io::BufWriter::new(stdout.lock());
    let (mut child, mut rx) = spawn();
    for line in stdin.lock().lines() {
        let line = line.unwrap();
        let line = line.trim_end();
        if line.is_empty() {
            continue;
        }
        let sent = {
            let cin = child.stdin.as_mut().unwrap();
            writeln!(cin, "{}", line).and_then(|_| cin.flush()).is_ok()
        };
        let res = if sent {
            rx.recv_timeout(Duration::from_secs(secs)).ok()
        } else {
            None
        };
        match res {
            Some(l) => writeln!(out, "{}", l).unwrap(),
            None => {
                let _ = child.kill();
                let _ = child.wait();
                let dead = !sent;
                writeln!(out, "{}", if dead { "ABORT" } else { "TIMEOUT" }).unwrap();
                let (c, r) = spawn();
                child = c;
                rx = r;
            }
        }
    }
    drop(child.stdin.take());
    let _ = child.wait();
    out.flush().unwrap();
}

fn main() {
    let args: Vec<String> = std::env::args().collect();
    if args.len() > 1 {
        match args[1].as_str() {
            "--watchdog" => {
                return watchdog(args.get(2).and_then(|s| s.parse().ok()).unwrap_or(5));
            }
            "dump-facts" => return dbx::dump_facts(),
            "dbopen" => return dbx::dbopen(&args[2..]),
            "dbhold" => return dbx::dbhold(&args[2..]),
            "dbcount" => return dbx::dbcount(&args[2..]),
            "dbstale" => return dbx::dbstale(&args[2..]),
            "dbforeign" => return dbx::dbforeign(&args[2..]),
            "topk" => return dbx::topk(&args[2..]),
            _ => {}
        }
    }
    // silence the default panic message; we report panics on stdout
    std::panic::set_hook(Box::new(|_| {}));
    let stdin = io::stdin();
    let stdout = io::stdout();
    let mut out = io::BufWriter::new(stdout.lock());
    let mut db: Option<Db> = None;
    for line in stdin.lock().lines() {
        let line = line.unwrap();
        let line = line.trim_end();
        if line.is_empty() {
            continue;
        }
        let res = catch_unwind(AssertUnwindSafe(|| dispatch(&mut db, line)));
        match res {
            Ok(s) => {
                writeln!(out, "{}", s).unwrap();
                out.flush().unwrap();
            }
            Err(e) => {
                let msg = if let Some(s) = e.downcast_ref::<&str>() {
                    s.to_string()
                } else if let Some(s) = e.downcast_ref::<String>() {
                    s.clone()
                } else {
                    "?".to_string()
                };
                let msg: String = msg.chars().take(80).collect();
                writeln!(out, "PANIC {}", msg.replace('\n', " ")).unwrap();
                out.flush().unwrap();
            }
        }
    }
    out.flush().unwrap();
}
