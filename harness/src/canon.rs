//! Canonical text forms shared by all commands.

use std::iter::FromIterator;

use anything::{Compound, Rational, Unit};
use serde_cbor::Value;

pub fn hex_encode(b: &[u8]) -> String {
    let mut s = String::with_capacity(b.len() * 2 + 1);
    if b.is_empty() {
        return "-".to_string();
    }
    for x in b {
        s.push_str(&format!("{:02x}", x));
    }
    s
}

pub fn hex_decode(s: &str) -> Vec<u8> {
    if s == "-" || s.is_empty() {
        return Vec::new();
    }
    (0..s.len() / 2)
        .map(|i| u8::from_str_radix(&s[2 * i..2 * i + 2], 16).unwrap())
        .collect()
}

pub fn rat(r: &Rational) -> String {
    format!("{}/{}", r.numer(), r.denom())
}

pub fn parse_rat(s: &str) -> Rational {
    let (n, d) = s.split_once('/').unwrap_or((s, "1"));
    let n: num::BigInt = n.parse().unwrap();
    let d: num::BigInt = d.parse().unwrap();
    Rational::new(n, d)
}

const BASES: [(&str, Unit); 8] = [
    ("KiloGram", Unit::KiloGram),
    ("Candela", Unit::Candela),
    ("Meter", Unit::Meter),
    ("Second", Unit::Second),
    ("Ampere", Unit::Ampere),
    ("Kelvin", Unit::Kelvin),
    ("Mole", Unit::Mole),
    ("Byte", Unit::Byte),
];

pub fn unit_key(u: &Unit) -> String {
    match u {
        Unit::Derived(d) => format!("D{}", d.id),
        other => {
            for (n, b) in BASES {
                if b == *other {
                    return n.to_string();
                }
            }
            "?".to_string()
        }
    }
}

pub fn parse_unit_key(s: &str) -> Unit {
    if let Some(id) = s.strip_prefix('D') {
        let id: u32 = id.parse().unwrap();
        return Unit::Derived(anything::verif::id_to_derived(id).expect("unknown derived id"));
    }
    for (n, b) in BASES {
        if n == s {
            return b;
        }
    }
    panic!("bad unit key {}", s)
}

/// Canonical unit: entries `key:power:prefix` joined by `,` in the map's own
/// iteration order, read from the `Serialize` implementation (never from Display).
pub fn unit_canon(c: &Compound) -> String {
    let v = serde_cbor::value::to_value(c).expect("compound serializes");
    let mut out = Vec::new();
    if let Value::Map(m) = v {
        for (_k, names) in m {
            if let Value::Map(names) = names {
                for (k, st) in names {
                    let key = match k {
                        Value::Text(t) => t,
                        Value::Map(m) => {
                            let mut s = String::new();
                            for (_, id) in m {
                                if let Value::Integer(i) = id {
                                    s = format!("D{}", i);
                                }
                            }
                            s
                        }
                        other => format!("?{:?}", other),
                    };
                    let mut power = 0i128;
                    let mut prefix = 0i128;
                    if let Value::Map(st) = st {
                        for (k, v) in st {
                            if let (Value::Text(k), Value::Integer(v)) = (k, v) {
                                match k.as_str() {
                                    "power" => power = v,
                                    "prefix" => prefix = v,
                                    _ => {}
                                }
                            }
                        }
                    }
                    out.push(format!("{}:{}:{}", key, power, prefix));
                }
            }
        }
    }
    // serde_cbor's Value::Map is ordered by CBOR key order; re-sort by the
    // derived `Ord` of `Unit` (derived units by id, then base units by variant).
    out.sort_by_key(|e: &String| {
        let k = e.split(':').next().unwrap().to_string();
        if let Some(id) = k.strip_prefix('D') {
            (0u8, id.parse::<u64>().unwrap_or(0))
        } else {
            (1u8, BASES.iter().position(|(n, _)| *n == k).unwrap_or(99) as u64)
        }
    });
    if out.is_empty() {
        "-".to_string()
    } else {
        out.join(",")
    }
}

pub fn parse_unit_canon(s: &str) -> Compound {
    if s == "-" {
        return Compound::empty();
    }
    let mut v = Vec::new();
    for e in s.split(',') {
        let p: Vec<&str> = e.split(':').collect();
        let u = parse_unit_key(p[0]);
        let power: i32 = p[1].parse().unwrap();
        let prefix: i32 = p[2].parse().unwrap();
        v.push((u, (power, prefix)));
    }
    Compound::from_iter(v)
}

/// Map an error message to a small enum (diagnostic only).
pub fn err_kind(msg: &str) -> &'static str {
    const TABLE: [(&str, &str); 22] = [
        ("syntax error", "syntaxError"),
        ("divide by zero", "divideByZero"),
        ("failed to look up constant", "lookupError"),
        ("illegal operation", "illegalOperation"),
        ("conversion from", "conversionNotPossible"),
        ("cannot cast", "illegalCast"),
        ("bad decimal number", "parseRational"),
        ("bad number of arguments", "argumentMismatch"),
        ("bad number", "badNumber"),
        ("unexpected syntax", "unexpected"),
        ("nothing matching", "missing"),
        ("unit `", "illegalUnit"),
        ("missing function", "missingFunction"),
        ("bad argument", "badArgument"),
        ("non-finite", "nonFinite"),
        ("missing expected node", "missingNode"),
        ("mismatching prefix", "prefixMismatch"),
        ("unit numbers must be", "illegalUnitNumber"),
        ("the power must not have a unit", "illegalPowerUnit"),
        ("the power of a number must be an integer", "illegalPowerNonInteger"),
        ("error when building tree", "treeError"),
        ("", "other"),
    ];
    for (p, k) in TABLE {
        if msg.starts_with(p) {
            // `unexpected syntax … expected` is the Expected variant
            if k == "unexpected" && msg.contains(", expected") {
                return "expected";
            }
            return k;
        }
    }
    "other"
}
