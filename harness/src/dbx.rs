//! Database-related commands (facts dump, lookups, on-disk scenarios).
use crate::canon::*;
use anything::Db;

pub fn open_memory() -> Db {
    Db::in_memory().expect("in-memory db")
}

pub fn cmd_lookup(db: &Db, q: &str) -> String {
    match anything::verif::lookup(db, q) {
        Ok(Some(c)) => format!(
            "L OK {} {} {}",
            rat(&c.value),
            unit_canon(&c.unit),
            hex_encode(c.description.as_bytes())
        ),
        Ok(None) => "L NONE".to_string(),
        Err(_) => "L ERR".to_string(),
    }
}

pub fn dump_facts() {}
pub fn dbopen(_args: &[String]) {}
pub fn topk(_args: &[String]) {}
