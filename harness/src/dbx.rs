//! Database-related commands (facts dump, lookups, on-disk scenarios).
use crate::canon::*;
use anything::Db;

pub fn open_memory() -> Db {
    Db::in_memory().expect("in-memory db")
}

pub fn cmd_lookup(db: &Db, q: &str) -> String {
    match anything::verif::lookup(db, q) {
        Ok(Some(c)) => format!(
            "L OK {} {} {}",
            rat(&c.value),
            unit_canon(&c.unit),
            hex_encode(c.description.as_bytes())
        ),
        Ok(None) => "L NONE".to_string(),
        Err(_) => "L ERR".to_string(),
    }
}

#[derive(serde::Deserialize)]
struct Doc {
    #[serde(default)]
    constants: Vec<anything::Constant>,
}

/// Decode every shipped data file with the real serde path and print the constants.
pub fn dump_facts() {
    use std::io::Read;
    let dir = std::env::var("VERIF_REPO").unwrap_or_else(|_| "/repo".to_string());
    let mut names: Vec<_> = std::fs::read_dir(format!("{}/db", dir))
        .unwrap()
        .filter_map(|e| e.ok())
        .map(|e| e.path())
        .filter(|p| p.to_string_lossy().ends_with(".bin.gz"))
        .collect();
    names.sort();
    for path in names {
        let fname = path.file_name().unwrap().to_string_lossy().to_string();
        if fname == "sources.bin.gz" {
            continue;
        }
        let bytes = std::fs::read(&path).unwrap();
        let mut raw = Vec::new();
        flate2::read::GzDecoder::new(&bytes[..]).read_to_end(&mut raw).unwrap();
        let doc: Doc = match serde_cbor::from_slice(&raw) {
            Ok(d) => d,
            Err(e) => {
                println!("FILEERR\t{}\t{}", fname, e);
                continue;
            }
        };
        for c in doc.constants {
            let toks: Vec<String> = c.tokens.iter().map(|t| hex_encode(t.as_bytes())).collect();
            println!(
                "FACT\t{}\t{}\t{}\t{}\t{}\t{}",
                if toks.is_empty() { "-".to_string() } else { toks.join(";") },
                rat(&c.value),
                unit_canon(&c.unit),
                hex_encode(c.description.as_bytes()),
                c.source.map(|s| s.to_string()).unwrap_or_else(|| "-".to_string()),
                fname
            );
        }
    }
}
pub fn dbopen(_args: &[String]) {}
pub fn topk(_args: &[String]) {}
