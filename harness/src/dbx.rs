//! Database-related commands (facts dump, lookups, on-disk scenarios).
use crate::canon::*;
use anything::Db;

pub fn open_memory() -> Db {
    Db::in_memory().expect("in-memory db")
}

pub fn cmd_lookup(db: &Db, q: &str) -> String {
    match anything::verif::lookup(db, q) {
        Ok(Some(c)) => format!(
            "L OK {} {} {}",
            rat(&c.value),
            unit_canon(&c.unit),
            hex_encode(c.description.as_bytes())
        ),
        Ok(None) => "L NONE".to_string(),
        Err(_) => "L ERR".to_string(),
    }
}

#[derive(serde::Deserialize)]
struct Doc {
    #[serde(default)]
    constants: Vec<anything::Constant>,
}

/// Decode every shipped data file with the real serde path and print the constants.
pub fn dump_facts() {
    use std::io::Read;
    let dir = std::env::var("VERIF_REPO").unwrap_or_else(|_| "/repo".to_string());
    let mut names: Vec<_> = std::fs::read_dir(format!("{}/db", dir))
        .unwrap()
        .filter_map(|e| e.ok())
        .map(|e| e.path())
        .filter(|p| p.to_string_lossy().ends_with(".bin.gz"))
        .collect();
    names.sort();
    for path in names {
        let fname = path.file_name().unwrap().to_string_lossy().to_string();
        if fname == "sources.bin.gz" {
            continue;
        }
        let bytes = std::fs::read(&path).unwrap();
        let mut raw = Vec::new();
        flate2::read::GzDecoder::new(&bytes[..]).read_to_end(&mut raw).unwrap();
        let doc: Doc = match serde_cbor::from_slice(&raw) {
            Ok(d) => d,
            Err(e) => {
                println!("FILEERR\t{}\t{}", fname, e);
                continue;
            }
        };
        for c in doc.constants {
            let toks: Vec<String> = c.tokens.iter().map(|t| hex_encode(t.as_bytes())).collect();
            println!(
                "FACT\t{}\t{}\t{}\t{}\t{}\t{}\t{}",
                if toks.is_empty() { "-".to_string() } else { toks.join(";") },
                rat(&c.value),
                unit_canon(&c.unit),
                hex_encode(c.description.as_bytes()),
                c.source.map(|s| s.to_string()).unwrap_or_else(|| "-".to_string()),
                fname,
                {
                    let d = c.unit.display(false).to_string();
                    if d.is_empty() { "-".to_string() } else { hex_encode(d.as_bytes()) }
                }
            );
        }
    }
}
fn answer_line(db: &Db, q: &str) -> String {
    match anything::verif::lookup(db, q) {
        Ok(Some(c)) => format!(
            "A {} {} {} {}",
            hex_encode(c.description.as_bytes()),
            rat(&c.value),
            unit_canon(&c.unit),
            c.tokens
                .iter()
                .map(|t| hex_encode(t.as_bytes()))
                .collect::<Vec<_>>()
                .join(";")
        ),
        Ok(None) => "A NONE".to_string(),
        Err(_) => "A ERR".to_string(),
    }
}

/// `dbopen mem|disk <queryfile>`: open the database (on disk under the current
/// XDG_DATA_HOME, honouring ANYTHING_VERIF_CRASH) and answer the queries of the file
/// (one hex phrase per line).
pub fn dbopen(args: &[String]) {
    let db = match args[0].as_str() {
        "mem" => Db::in_memory(),
        _ => Db::open(),
    };
    let db = match db {
        Ok(db) => db,
        Err(e) => {
            println!("OPENERR {}", e.to_string().replace('\n', " "));
            return;
        }
    };
    println!("OPENED");
    let qs = std::fs::read_to_string(&args[1]).unwrap_or_default();
    let out = std::io::stdout();
    let mut out = std::io::BufWriter::new(out.lock());
    use std::io::Write;
    for l in qs.lines() {
        let q = String::from_utf8(hex_decode(l.trim())).unwrap();
        writeln!(out, "{}", answer_line(&db, &q)).unwrap();
    }
}

/// `dbhold <queryfile>`: a LONG-LIVED on-disk session. The database is opened on disk and
/// answers the queries; then, while it stays open, another start of the tool finds the index
/// directory gone, recreates it and is killed before it commits anything (a child process of this
/// binary, crash point 4); after more than a second the SAME session answers the queries again.
/// Prints `FIRST`, the answers, `SECOND`, the answers.
pub fn dbhold(args: &[String]) {
    use std::io::Write;
    let db = match Db::open() {
        Ok(db) => db,
        Err(e) => {
            println!("OPENERR {}", e.to_string().replace('\n', " "));
            return;
        }
    };
    let qs = std::fs::read_to_string(&args[0]).unwrap_or_default();
    let ask = |tag: &str| {
        let out = std::io::stdout();
        let mut out = std::io::BufWriter::new(out.lock());
        writeln!(out, "{}", tag).unwrap();
        for l in qs.lines() {
            let q = String::from_utf8(hex_decode(l.trim())).unwrap();
            writeln!(out, "{}", answer_line(&db, &q)).unwrap();
        }
    };
    ask("FIRST");
    std::thread::sleep(std::time::Duration::from_millis(1500));
    let data = std::path::PathBuf::from(std::env::var("XDG_DATA_HOME").unwrap()).join("facts");
    let _ = std::fs::remove_file(data.join("meta.json"));
    let _ = std::fs::remove_dir_all(data.join("index"));
    let exe = std::env::current_exe().unwrap();
    let _ = std::process::Command::new(exe)
        .args(["dbopen", "disk", &args[0]])
        .env("ANYTHING_VERIF_CRASH", "4")
        .stdout(std::process::Stdio::null())
        .stderr(std::process::Stdio::null())
        .status();
    std::thread::sleep(std::time::Duration::from_millis(1800));
    ask("SECOND");
}

pub fn topk(_args: &[String]) {}

fn open_disk_index(dir: &str) -> tantivy::Result<tantivy::Index> {
    use tantivy::tokenizer::{LowerCaser, NgramTokenizer, TextAnalyzer};
    let index = tantivy::Index::open_in_dir(dir)?;
    index
        .tokenizers()
        .register("ngram", TextAnalyzer::from(NgramTokenizer::new(1, 7, true)).filter(LowerCaser));
    Ok(index)
}

/// `dbcount <index dir>`: number of committed documents in an on-disk index.
pub fn dbcount(args: &[String]) {
    match open_disk_index(&args[0]).and_then(|i| i.reader()) {
        Ok(r) => println!("COUNT {}", r.searcher().num_docs()),
        Err(e) => println!("COUNTERR {}", e.to_string().replace('\n', " ")),
    }
}

/// `dbforeign <index dir>`: replace the directory by a healthy index of ANOTHER LAYOUT (the
/// `name` field analysed by tantivy's default word tokenizer), as another version of the tool
/// might have written it.
pub fn dbforeign(args: &[String]) {
    let run = || -> anyhow::Result<u64> {
        use tantivy::schema::{Schema, STORED, TEXT};
        let _ = std::fs::remove_dir_all(&args[0]);
        std::fs::create_dir_all(&args[0])?;
        let mut b = Schema::builder();
        let data = b.add_bytes_field("data", STORED);
        let name = b.add_text_field("name", TEXT | STORED);
        let index = tantivy::Index::create_in_dir(&args[0], b.build())?;
        let mut w = index.writer_with_num_threads(1, 50_000_000)?;
        for (tokens, value, desc) in [
            (vec!["mass", "vulcan"], "42/1", "Mass of Vulcan (FOREIGN INDEX)"),
            (vec!["population", "finland"], "1/1", "Population of Finland (FOREIGN INDEX)"),
        ] {
            let c = anything::Constant {
                source: None,
                tokens: tokens.iter().map(|t| t.to_string().into_boxed_str()).collect(),
                description: desc.to_string().into_boxed_str(),
                value: parse_rat(value),
                unit: parse_unit_canon("-"),
            };
            let mut doc = tantivy::Document::default();
            doc.add_bytes(data, serde_cbor::to_vec(&c)?);
            for t in &c.tokens {
                doc.add_text(name, t.as_ref());
            }
            w.add_document(doc)?;
        }
        w.commit()?;
        Ok(index.reader()?.searcher().num_docs())
    };
    match run() {
        Ok(n) => println!("FOREIGN {}", n),
        Err(e) => println!("FOREIGNERR {}", e.to_string().replace('\n', " ")),
    }
}

/// `dbstale <index dir>`: replace the committed documents of an on-disk index by an earlier
/// "generation" of the data: a withdrawn constant and a revised one.
pub fn dbstale(args: &[String]) {
    let run = || -> anyhow::Result<u64> {
        let index = open_disk_index(&args[0])?;
        let schema = index.schema();
        let data = schema.get_field("data").ok_or_else(|| anyhow::anyhow!("no data field"))?;
        let name = schema.get_field("name").ok_or_else(|| anyhow::anyhow!("no name field"))?;
        let mut w = index.writer_with_num_threads(1, 50_000_000)?;
        w.delete_all_documents()?;
        for (tokens, value, desc) in [
            (vec!["mass", "vulcan"], "42/1", "Mass of Vulcan (WITHDRAWN)"),
            (vec!["mass", "earth"], "1/1", "Mass of Earth (OLD VALUE)"),
            (vec!["population", "atlantis"], "7/1", "Population of Atlantis (WITHDRAWN)"),
        ] {
            let c = anything::Constant {
                source: None,
                tokens: tokens.iter().map(|t| t.to_string().into_boxed_str()).collect(),
                description: desc.to_string().into_boxed_str(),
                value: parse_rat(value),
                unit: parse_unit_canon("KiloGram:1:0"),
            };
            let mut doc = tantivy::Document::default();
            doc.add_bytes(data, serde_cbor::to_vec(&c)?);
            for t in &c.tokens {
                doc.add_text(name, t.as_ref());
            }
            w.add_document(doc)?;
        }
        w.commit()?;
        Ok(index.reader()?.searcher().num_docs())
    };
    match run() {
        Ok(n) => println!("STALE {}", n),
        Err(e) => println!("STALEERR {}", e.to_string().replace('\n', " ")),
    }
}
