//! CBOR / JSON codec commands (C17).
use crate::canon::*;
use anything::{Compound, Rational};

pub fn cmd_cbor(args: &[&str]) -> String {
    match args[0] {
        // cbor rat n/d -> bytes, round trip, json, json round trip
        "rat" => {
            let r = parse_rat(args[1]);
            let bytes = serde_cbor::to_vec(&r).unwrap();
            let back: Result<Rational, _> = serde_cbor::from_slice(&bytes);
            let rt = matches!(&back, Ok(b) if *b == r);
            let js = serde_json::to_string(&r).unwrap();
            let jback: Result<Rational, _> = serde_json::from_str(&js);
            let jrt = matches!(&jback, Ok(b) if *b == r);
            format!(
                "B {} {} {} {}",
                hex_encode(&bytes),
                if rt { "rt" } else { "RTFAIL" },
                hex_encode(js.as_bytes()),
                if jrt { "rt" } else { "RTFAIL" }
            )
        }
        "unit" => {
            let c = parse_unit_canon(args[1]);
            let bytes = serde_cbor::to_vec(&c).unwrap();
            let back: Result<Compound, _> = serde_cbor::from_slice(&bytes);
            let rt = matches!(&back, Ok(b) if *b == c);
            format!("B {} {}", hex_encode(&bytes), if rt { "rt" } else { "RTFAIL" })
        }
        // decode rat bytes
        "derat" => {
            let bytes = hex_decode(args[1]);
            let back: Result<Rational, _> = serde_cbor::from_slice(&bytes);
            match back {
                Ok(r) => format!("B OK {}", rat(&r)),
                Err(_) => "B ERR".to_string(),
            }
        }
        "deunit" => {
            let bytes = hex_decode(args[1]);
            let back: Result<Compound, _> = serde_cbor::from_slice(&bytes);
            match back {
                Ok(c) => format!("B OK {}", unit_canon(&c)),
                Err(_) => "B ERR".to_string(),
            }
        }
        // decode unit bytes and print the unit the way the tool displays it (identifier-free)
        "deunitname" => {
            let bytes = hex_decode(args[1]);
            let back: Result<Compound, _> = serde_cbor::from_slice(&bytes);
            match back {
                Ok(c) => format!("B OK {} {}", hex_encode(c.display(false).to_string().as_bytes()), unit_canon(&c)),
                Err(_) => "B ERR".to_string(),
            }
        }
        // singular and plural display of a unit given in canonical form
        "unitnames" => {
            let c = parse_unit_canon(args[1]);
            format!(
                "B {} {}",
                hex_encode(c.display(false).to_string().as_bytes()),
                hex_encode(c.display(true).to_string().as_bytes())
            )
        }
        // parse a unit word, write it, read it back; print both the way the tool displays them
        "unitword" => {
            let text = String::from_utf8(hex_decode(args[1])).unwrap();
            let c: Compound = match text.parse() {
                Ok(c) => c,
                Err(_) => return "B NOPARSE".to_string(),
            };
            let bytes = serde_cbor::to_vec(&c).unwrap();
            let back: Result<Compound, _> = serde_cbor::from_slice(&bytes);
            match back {
                Ok(b) => format!(
                    "B OK {} {} {}",
                    hex_encode(c.display(false).to_string().as_bytes()),
                    hex_encode(b.display(false).to_string().as_bytes()),
                    hex_encode(&bytes)
                ),
                Err(_) => format!("B RTFAIL {}", hex_encode(&bytes)),
            }
        }
        "dejsonrat" => {
            let bytes = hex_decode(args[1]);
            let back: Result<Rational, _> = serde_json::from_slice(&bytes);
            match back {
                Ok(r) => format!("B OK {}", rat(&r)),
                Err(_) => "B ERR".to_string(),
            }
        }
        // constant: source(or -) tokens(hex;hex) desc(hex) n/d unit
        "const" => {
            let source = if args[1] == "-" { None } else { Some(args[1].parse::<u64>().unwrap()) };
            let tokens: Vec<Box<str>> = if args[2] == "-" {
                Vec::new()
            } else {
                args[2]
                    .split(';')
                    .map(|h| String::from_utf8(hex_decode(h)).unwrap().into_boxed_str())
                    .collect()
            };
            let c = anything::Constant {
                source,
                tokens,
                description: String::from_utf8(hex_decode(args[3])).unwrap().into_boxed_str(),
                value: parse_rat(args[4]),
                unit: parse_unit_canon(args[5]),
            };
            let bytes = serde_cbor::to_vec(&c).unwrap();
            let back: Result<anything::Constant, _> = serde_cbor::from_slice(&bytes);
            let rt = match &back {
                Ok(b) => {
                    b.source == c.source
                        && b.tokens == c.tokens
                        && b.description == c.description
                        && b.value == c.value
                        && b.unit == c.unit
                }
                Err(_) => false,
            };
            format!("B {} {}", hex_encode(&bytes), if rt { "rt" } else { "RTFAIL" })
        }
        _ => "B ?".to_string(),
    }
}
