
/// Unroll the given for loop
///
/// Example:
///
/// ```ignore
/// unroll! {
///   for i in 0..5 {
///     println!("Iteration {}", i);
///   }
/// }
/// ```
///
/// will expand into:
///
/// ```ignore
/// { println!("Iteration {}", 0); }
/// { println!("Iteration {}", 1); }
/// { println!("Iteration {}", 2); }
/// { println!("Iteration {}", 3); }
/// { println!("Iteration {}", 4); }
/// ```
#[macro_export]
macro_rules! unroll {
    (for $v:ident in 0..0 $c:block) => {};

    (for $v:ident < $max:tt in ($start:tt..$end:tt).step_by($val:expr) {$($c:tt)*}) => {
        {
            let step = $val;
            let start = $start;
            let end = start + ($end - start) / step;
            unroll! {
                for val < $max in start..end {
                    let $v: usize = ((val - start) * step) + start;

                    $($c)*
                }
            }
        }
    };

    (for $v:ident in ($start:tt..$end:tt).step_by($val:expr) {$($c:tt)*}) => {
        unroll! {
            for $v < $end in ($start..$end).step_by($val) {$($c)*}
        }
    };

    (for $v:ident in ($start:tt..$end:tt) {$($c:tt)*}) => {
        unroll!{
            for $v in $start..$end {$($c)*}
        }
    };

    (for $v:ident in $start:tt..$end:tt {$($c:tt)*}) => {
        #[allow(non_upper_case_globals)]
        #[allow(unused_comparisons)]
        {
            unroll!(@$v, 0, $end, {
                    if $v >= $start {$($c)*}
                }
            );
        }
    };

    (for $v:ident < $max:tt in $start:tt..$end:tt $c:block) => {
        #[allow(non_upper_case_globals)]
        {
            let range = $start..$end;
            assert!(
                $max >= range.end,
                "`{}` out of range `{:?}`",
                stringify!($max),
                range,
            );
            unroll!(
                @$v,
                0,
                $max,
                {
                    if $v >= range.start && $v < range.end {
                        $c
                    }
                }
            );
        }
    };

    (for $v:ident in 0..$end:tt {$($statement:tt)*}) => {
        #[allow(non_upper_case_globals)]
        { unroll!(@$v, 0, $end, {$($statement)*}); }
    };

    (@$v:ident, $a:expr, 0, $c:block) => {
        { const $v: usize = $a; $c }
    };

    (@$v:ident, $a:expr, 1, $c:block) => {
        { const $v: usize = $a; $c }
    };

    (@$v:ident, $a:expr, 2, $c:block) => {
        { const $v: usize = $a; $c }
        { const $v: usize = $a + 1; $c }
    };

    (@$v:ident, $a:expr, 3, $c:block) => {
        { const $v: usize = $a; $c }
        { const $v: usize = $a + 1; $c }
        { const $v: usize = $a + 2; $c }
    };

    (@$v:ident, $a:expr, 4, $c:block) => {
        { const $v: usize = $a; $c }
        { const $v: usize = $a + 1; $c }
        { const $v: usize = $a + 2; $c }
        { const $v: usize = $a + 3; $c }
    };

    (@$v:ident, $a:expr, 5, $c:block) => {
        { const $v: usize = $a; $c }
        { const $v: usize = $a + 1; $c }
        { const $v: usize = $a + 2; $c }
        { const $v: usize = $a + 3; $c }
        { const $v: usize = $a + 4; $c }
    };

    (@$v:ident, $a:expr, 6, $c:block) => {
        { const $v: usize = $a; $c }
        { const $v: usize = $a + 1; $c }
        { const $v: usize = $a + 2; $c }
        { const $v: usize = $a + 3; $c }
        { const $v: usize = $a + 4; $c }
        { const $v: usize = $a + 5; $c }
    };

    (@$v:ident, $a:expr, 7, $c:block) => {
        { const $v: usize = $a; $c }
        { const $v: usize = $a + 1; $c }
        { const $v: usize = $a + 2; $c }
        { const $v: usize = $a + 3; $c }
        { const $v: usize = $a + 4; $c }
        { const $v: usize = $a + 5; $c }
        { const $v: usize = $a + 6; $c }
    };

    (@$v:ident, $a:expr, 8, $c:block) => {
        { const $v: usize = $a; $c }
        { const $v: usize = $a + 1; $c }
        { const $v: usize = $a + 2; $c }
        { const $v: usize = $a + 3; $c }
        { const $v: usize = $a + 4; $c }
        { const $v: usize = $a + 5; $c }
        { const $v: usize = $a + 6; $c }
        { const $v: usize = $a + 7; $c }
    };

    (@$v:ident, $a:expr, 9, $c:block) => {
        { const $v: usize = $a; $c }
        { const $v: usize = $a + 1; $c }
        { const $v: usize = $a + 2; $c }
        { const $v: usize = $a + 3; $c }
        { const $v: usize = $a + 4; $c }
        { const $v: usize = $a + 5; $c }
        { const $v: usize = $a + 6; $c }
        { const $v: usize = $a + 7; $c }
        { const $v: usize = $a + 8; $c }
    };

    (@$v:ident, $a:expr, 10, $c:block) => {
        { const $v: usize = $a; $c }
        { const $v: usize = $a + 1; $c }
        { const $v: usize = $a + 2; $c }
        { const $v: usize = $a + 3; $c }
        { const $v: usize = $a + 4; $c }
        { const $v: usize = $a + 5; $c }
        { const $v: usize = $a + 6; $c }
        { const $v: usize = $a + 7; $c }
        { const $v: usize = $a + 8; $c }
        { const $v: usize = $a + 9; $c }
    };

    (@$v:ident, $a:expr, 11, $c:block) => {
        { const $v: usize = $a; $c }
        { const $v: usize = $a + 1; $c }
        { const $v: usize = $a + 2; $c }
        { const $v: usize = $a + 3; $c }
        { const $v: usize = $a + 4; $c }
        { const $v: usize = $a + 5; $c }
        { const $v: usize = $a + 6; $c }
        { const $v: usize = $a + 7; $c }
        { const $v: usize = $a + 8; $c }
        { const $v: usize = $a + 9; $c }
        { const $v: usize = $a + 10; $c }
    };

    (@$v:ident, $a:expr, 12, $c:block) => {
        { const $v: usize = $a; $c }
        { const $v: usize = $a + 1; $c }
        { const $v: usize = $a + 2; $c }
        { const $v: usize = $a + 3; $c }
        { const $v: usize = $a + 4; $c }
        { const $v: usize = $a + 5; $c }
        { const $v: usize = $a + 6; $c }
        { const $v: usize = $a + 7; $c }
        { const $v: usize = $a + 8; $c }
        { const $v: usize = $a + 9; $c }
        { const $v: usize = $a + 10; $c }
        { const $v: usize = $a + 11; $c }
    };

    (@$v:ident, $a:expr, 13, $c:block) => {
        { const $v: usize = $a; $c }
        { const $v: usize = $a + 1; $c }
        { const $v: usize = $a + 2; $c }
        { const $v: usize = $a + 3; $c }
        { const $v: usize = $a + 4; $c }
        { const $v: usize = $a + 5; $c }
        { const $v: usize = $a + 6; $c }
        { const $v: usize = $a + 7; $c }
        { const $v: usize = $a + 8; $c }
        { const $v: usize = $a + 9; $c }
        { const $v: usize = $a + 10; $c }
        { const $v: usize = $a + 11; $c }
        { const $v: usize = $a + 12; $c }
    };

    (@$v:ident, $a:expr, 14, $c:block) => {
        { const $v: usize = $a; $c }
        { const $v: usize = $a + 1; $c }
        { const $v: usize = $a + 2; $c }
        { const $v: usize = $a + 3; $c }
        { const $v: usize = $a + 4; $c }
        { const $v: usize = $a + 5; $c }
        { const $v: usize = $a + 6; $c }
        { const $v: usize = $a + 7; $c }
        { const $v: usize = $a + 8; $c }
        { const $v: usize = $a + 9; $c }
        { const $v: usize = $a + 10; $c }
        { const $v: usize = $a + 11; $c }
        { const $v: usize = $a + 12; $c }
        { const $v: usize = $a + 13; $c }
    };

    (@$v:ident, $a:expr, 15, $c:block) => {
        { const $v: usize = $a; $c }
        { const $v: usize = $a + 1; $c }
        { const $v: usize = $a + 2; $c }
        { const $v: usize = $a + 3; $c }
        { const $v: usize = $a + 4; $c }
        { const $v: usize = $a + 5; $c }
        { const $v: usize = $a + 6; $c }
        { const $v: usize = $a + 7; $c }
        { const $v: usize = $a + 8; $c }
        { const $v: usize = $a + 9; $c }
        { const $v: usize = $a + 10; $c }
        { const $v: usize = $a + 11; $c }
        { const $v: usize = $a + 12; $c }
        { const $v: usize = $a + 13; $c }
        { const $v: usize = $a + 14; $c }
    };

    (@$v:ident, $a:expr, 16, $c:block) => {
        { const $v: usize = $a; $c }
        { const $v: usize = $a + 1; $c }
        { const $v: usize = $a + 2; $c }
        { const $v: usize = $a + 3; $c }
        { const $v: usize = $a + 4; $c }
        { const $v: usize = $a + 5; $c }
        { const $v: usize = $a + 6; $c }
        { const $v: usize = $a + 7; $c }
        { const $v: usize = $a + 8; $c }
        { const $v: usize = $a + 9; $c }
        { const $v: usize = $a + 10; $c }
        { const $v: usize = $a + 11; $c }
        { const $v: usize = $a + 12; $c }
        { const $v: usize = $a + 13; $c }
        { const $v: usize = $a + 14; $c }
        { const $v: usize = $a + 15; $c }
    };

    (@$v:ident, $a:expr, 17, $c:block) => {
        unroll!(@$v, $a, 16, $c);
        { const $v: usize = $a + 16; $c }
    };

    (@$v:ident, $a:expr, 18, $c:block) => {
        unroll!(@$v, $a, 9, $c);
        unroll!(@$v, $a + 9, 9, $c);
    };

    (@$v:ident, $a:expr, 19, $c:block) => {
        unroll!(@$v, $a, 18, $c);
        { const $v: usize = $a + 18; $c }
    };

    (@$v:ident, $a:expr, 20, $c:block) => {
        unroll!(@$v, $a, 10, $c);
        unroll!(@$v, $a + 10, 10, $c);
    };

    (@$v:ident, $a:expr, 21, $c:block) => {
        unroll!(@$v, $a, 20, $c);
        { const $v: usize = $a + 20; $c }
    };

    (@$v:ident, $a:expr, 22, $c:block) => {
        unroll!(@$v, $a, 11, $c);
        unroll!(@$v, $a + 11, 11, $c);
    };

    (@$v:ident, $a:expr, 23, $c:block) => {
        unroll!(@$v, $a, 22, $c);
        { const $v: usize = $a + 22; $c }
    };

    (@$v:ident, $a:expr, 24, $c:block) => {
        unroll!(@$v, $a, 12, $c);
        unroll!(@$v, $a + 12, 12, $c);
    };

    (@$v:ident, $a:expr, 25, $c:block) => {
        unroll!(@$v, $a, 24, $c);
        { const $v: usize = $a + 24; $c }
    };

    (@$v:ident, $a:expr, 26, $c:block) => {
        unroll!(@$v, $a, 13, $c);
        unroll!(@$v, $a + 13, 13, $c);
    };

    (@$v:ident, $a:expr, 27, $c:block) => {
        unroll!(@$v, $a, 26, $c);
        { const $v: usize = $a + 26; $c }
    };

    (@$v:ident, $a:expr, 28, $c:block) => {
        unroll!(@$v, $a, 14, $c);
        unroll!(@$v, $a + 14, 14, $c);
    };

    (@$v:ident, $a:expr, 29, $c:block) => {
        unroll!(@$v, $a, 28, $c);
        { const $v: usize = $a + 28; $c }
    };

    (@$v:ident, $a:expr, 30, $c:block) => {
        unroll!(@$v, $a, 15, $c);
        unroll!(@$v, $a + 15, 15, $c);
    };

    (@$v:ident, $a:expr, 31, $c:block) => {
        unroll!(@$v, $a, 30, $c);
        { const $v: usize = $a + 30; $c }
    };

    (@$v:ident, $a:expr, 32, $c:block) => {
        unroll!(@$v, $a, 16, $c);
        unroll!(@$v, $a + 16, 16, $c);
    };

    (@$v:ident, $a:expr, 33, $c:block) => {
        unroll!(@$v, $a, 32, $c);
        { const $v: usize = $a + 32; $c }
    };

    (@$v:ident, $a:expr, 34, $c:block) => {
        unroll!(@$v, $a, 17, $c);
        unroll!(@$v, $a + 17, 17, $c);
    };

    (@$v:ident, $a:expr, 35, $c:block) => {
        unroll!(@$v, $a, 34, $c);
        { const $v: usize = $a + 34; $c }
    };

    (@$v:ident, $a:expr, 36, $c:block) => {
        unroll!(@$v, $a, 18, $c);
        unroll!(@$v, $a + 18, 18, $c);
    };

    (@$v:ident, $a:expr, 37, $c:block) => {
        unroll!(@$v, $a, 36, $c);
        { const $v: usize = $a + 36; $c }
    };

    (@$v:ident, $a:expr, 38, $c:block) => {
        unroll!(@$v, $a, 19, $c);
        unroll!(@$v, $a + 19, 19, $c);
    };

    (@$v:ident, $a:expr, 39, $c:block) => {
        unroll!(@$v, $a, 38, $c);
        { const $v: usize = $a + 38; $c }
    };

    (@$v:ident, $a:expr, 40, $c:block) => {
        unroll!(@$v, $a, 20, $c);
        unroll!(@$v, $a + 20, 20, $c);
    };

    (@$v:ident, $a:expr, 41, $c:block) => {
        unroll!(@$v, $a, 40, $c);
        { const $v: usize = $a + 40; $c }
    };

    (@$v:ident, $a:expr, 42, $c:block) => {
        unroll!(@$v, $a, 21, $c);
        unroll!(@$v, $a + 21, 21, $c);
    };

    (@$v:ident, $a:expr, 43, $c:block) => {
        unroll!(@$v, $a, 42, $c);
        { const $v: usize = $a + 42; $c }
    };

    (@$v:ident, $a:expr, 44, $c:block) => {
        unroll!(@$v, $a, 22, $c);
        unroll!(@$v, $a + 22, 22, $c);
    };

    (@$v:ident, $a:expr, 45, $c:block) => {
        unroll!(@$v, $a, 44, $c);
        { const $v: usize = $a + 44; $c }
    };

    (@$v:ident, $a:expr, 46, $c:block) => {
        unroll!(@$v, $a, 23, $c);
        unroll!(@$v, $a + 23, 23, $c);
    };

    (@$v:ident, $a:expr, 47, $c:block) => {
        unroll!(@$v, $a, 46, $c);
        { const $v: usize = $a + 46; $c }
    };

    (@$v:ident, $a:expr, 48, $c:block) => {
        unroll!(@$v, $a, 24, $c);
        unroll!(@$v, $a + 24, 24, $c);
    };

    (@$v:ident, $a:expr, 49, $c:block) => {
        unroll!(@$v, $a, 48, $c);
        { const $v: usize = $a + 48; $c }
    };

    (@$v:ident, $a:expr, 50, $c:block) => {
        unroll!(@$v, $a, 25, $c);
        unroll!(@$v, $a + 25, 25, $c);
    };

    (@$v:ident, $a:expr, 51, $c:block) => {
        unroll!(@$v, $a, 50, $c);
        { const $v: usize = $a + 50; $c }
    };

    (@$v:ident, $a:expr, 52, $c:block) => {
        unroll!(@$v, $a, 26, $c);
        unroll!(@$v, $a + 26, 26, $c);
    };

    (@$v:ident, $a:expr, 53, $c:block) => {
        unroll!(@$v, $a, 52, $c);
        { const $v: usize = $a + 52; $c }
    };

    (@$v:ident, $a:expr, 54, $c:block) => {
        unroll!(@$v, $a, 27, $c);
        unroll!(@$v, $a + 27, 27, $c);
    };

    (@$v:ident, $a:expr, 55, $c:block) => {
        unroll!(@$v, $a, 54, $c);
        { const $v: usize = $a + 54; $c }
    };

    (@$v:ident, $a:expr, 56, $c:block) => {
        unroll!(@$v, $a, 28, $c);
        unroll!(@$v, $a + 28, 28, $c);
    };

    (@$v:ident, $a:expr, 57, $c:block) => {
        unroll!(@$v, $a, 56, $c);
        { const $v: usize = $a + 56; $c }
    };

    (@$v:ident, $a:expr, 58, $c:block) => {
        unroll!(@$v, $a, 29, $c);
        unroll!(@$v, $a + 29, 29, $c);
    };

    (@$v:ident, $a:expr, 59, $c:block) => {
        unroll!(@$v, $a, 58, $c);
        { const $v: usize = $a + 58; $c }
    };

    (@$v:ident, $a:expr, 60, $c:block) => {
        unroll!(@$v, $a, 30, $c);
        unroll!(@$v, $a + 30, 30, $c);
    };

    (@$v:ident, $a:expr, 61, $c:block) => {
        unroll!(@$v, $a, 60, $c);
        { const $v: usize = $a + 60; $c }
    };

    (@$v:ident, $a:expr, 62, $c:block) => {
        unroll!(@$v, $a, 31, $c);
        unroll!(@$v, $a + 31, 31, $c);
    };

    (@$v:ident, $a:expr, 63, $c:block) => {
        unroll!(@$v, $a, 62, $c);
        { const $v: usize = $a + 62; $c }
    };

    (@$v:ident, $a:expr, 64, $c:block) => {
        unroll!(@$v, $a, 32, $c);
        unroll!(@$v, $a + 32, 32, $c);
    };

    (@$v:ident, $a:expr, 65, $c:block) => {
        unroll!(@$v, $a, 64, $c);
        { const $v: usize = $a + 64; $c }
    };

    (@$v:ident, $a:expr, 66, $c:block) => {
        unroll!(@$v, $a, 33, $c);
        unroll!(@$v, $a + 33, 33, $c);
    };

    (@$v:ident, $a:expr, 67, $c:block) => {
        unroll!(@$v, $a, 66, $c);
        { const $v: usize = $a + 66; $c }
    };

    (@$v:ident, $a:expr, 68, $c:block) => {
        unroll!(@$v, $a, 34, $c);
        unroll!(@$v, $a + 34, 34, $c);
    };

    (@$v:ident, $a:expr, 69, $c:block) => {
        unroll!(@$v, $a, 68, $c);
        { const $v: usize = $a + 68; $c }
    };

    (@$v:ident, $a:expr, 70, $c:block) => {
        unroll!(@$v, $a, 35, $c);
        unroll!(@$v, $a + 35, 35, $c);
    };

    (@$v:ident, $a:expr, 71, $c:block) => {
        unroll!(@$v, $a, 70, $c);
        { const $v: usize = $a + 70; $c }
    };

    (@$v:ident, $a:expr, 72, $c:block) => {
        unroll!(@$v, $a, 36, $c);
        unroll!(@$v, $a + 36, 36, $c);
    };

    (@$v:ident, $a:expr, 73, $c:block) => {
        unroll!(@$v, $a, 72, $c);
        { const $v: usize = $a + 72; $c }
    };

    (@$v:ident, $a:expr, 74, $c:block) => {
        unroll!(@$v, $a, 37, $c);
        unroll!(@$v, $a + 37, 37, $c);
    };

    (@$v:ident, $a:expr, 75, $c:block) => {
        unroll!(@$v, $a, 74, $c);
        { const $v: usize = $a + 74; $c }
    };

    (@$v:ident, $a:expr, 76, $c:block) => {
        unroll!(@$v, $a, 38, $c);
        unroll!(@$v, $a + 38, 38, $c);
    };

    (@$v:ident, $a:expr, 77, $c:block) => {
        unroll!(@$v, $a, 76, $c);
        { const $v: usize = $a + 76; $c }
    };

    (@$v:ident, $a:expr, 78, $c:block) => {
        unroll!(@$v, $a, 39, $c);
        unroll!(@$v, $a + 39, 39, $c);
    };

    (@$v:ident, $a:expr, 79, $c:block) => {
        unroll!(@$v, $a, 78, $c);
        { const $v: usize = $a + 78; $c }
    };

    (@$v:ident, $a:expr, 80, $c:block) => {
        unroll!(@$v, $a, 40, $c);
        unroll!(@$v, $a + 40, 40, $c);
    };

    (@$v:ident, $a:expr, 81, $c:block) => {
        unroll!(@$v, $a, 80, $c);
        { const $v: usize = $a + 80; $c }
    };

    (@$v:ident, $a:expr, 82, $c:block) => {
        unroll!(@$v, $a, 41, $c);
        unroll!(@$v, $a + 41, 41, $c);
    };

    (@$v:ident, $a:expr, 83, $c:block) => {
        unroll!(@$v, $a, 82, $c);
        { const $v: usize = $a + 82; $c }
    };

    (@$v:ident, $a:expr, 84, $c:block) => {
        unroll!(@$v, $a, 42, $c);
        unroll!(@$v, $a + 42, 42, $c);
    };

    (@$v:ident, $a:expr, 85, $c:block) => {
        unroll!(@$v, $a, 84, $c);
        { const $v: usize = $a + 84; $c }
    };

    (@$v:ident, $a:expr, 86, $c:block) => {
        unroll!(@$v, $a, 43, $c);
        unroll!(@$v, $a + 43, 43, $c);
    };

    (@$v:ident, $a:expr, 87, $c:block) => {
        unroll!(@$v, $a, 86, $c);
        { const $v: usize = $a + 86; $c }
    };

    (@$v:ident, $a:expr, 88, $c:block) => {
        unroll!(@$v, $a, 44, $c);
        unroll!(@$v, $a + 44, 44, $c);
    };

    (@$v:ident, $a:expr, 89, $c:block) => {
        unroll!(@$v, $a, 88, $c);
        { const $v: usize = $a + 88; $c }
    };

    (@$v:ident, $a:expr, 90, $c:block) => {
        unroll!(@$v, $a, 45, $c);
        unroll!(@$v, $a + 45, 45, $c);
    };

    (@$v:ident, $a:expr, 91, $c:block) => {
        unroll!(@$v, $a, 90, $c);
        { const $v: usize = $a + 90; $c }
    };

    (@$v:ident, $a:expr, 92, $c:block) => {
        unroll!(@$v, $a, 46, $c);
        unroll!(@$v, $a + 46, 46, $c);
    };

    (@$v:ident, $a:expr, 93, $c:block) => {
        unroll!(@$v, $a, 92, $c);
        { const $v: usize = $a + 92; $c }
    };

    (@$v:ident, $a:expr, 94, $c:block) => {
        unroll!(@$v, $a, 47, $c);
        unroll!(@$v, $a + 47, 47, $c);
    };

    (@$v:ident, $a:expr, 95, $c:block) => {
        unroll!(@$v, $a, 94, $c);
        { const $v: usize = $a + 94; $c }
    };

    (@$v:ident, $a:expr, 96, $c:block) => {
        unroll!(@$v, $a, 48, $c);
        unroll!(@$v, $a + 48, 48, $c);
    };

    (@$v:ident, $a:expr, 97, $c:block) => {
        unroll!(@$v, $a, 96, $c);
        { const $v: usize = $a + 96; $c }
    };

    (@$v:ident, $a:expr, 98, $c:block) => {
        unroll!(@$v, $a, 49, $c);
        unroll!(@$v, $a + 49, 49, $c);
    };

    (@$v:ident, $a:expr, 99, $c:block) => {
        unroll!(@$v, $a, 98, $c);
        { const $v: usize = $a + 98; $c }
    };

    (@$v:ident, $a:expr, 100, $c:block) => {
        unroll!(@$v, $a, 50, $c);
        unroll!(@$v, $a + 50, 50, $c);
    };

    (@$v:ident, $a:expr, 101, $c:block) => {
        unroll!(@$v, $a, 100, $c);
        { const $v: usize = $a + 100; $c }
    };

    (@$v:ident, $a:expr, 102, $c:block) => {
        unroll!(@$v, $a, 51, $c);
        unroll!(@$v, $a + 51, 51, $c);
    };

    (@$v:ident, $a:expr, 103, $c:block) => {
        unroll!(@$v, $a, 102, $c);
        { const $v: usize = $a + 102; $c }
    };

    (@$v:ident, $a:expr, 104, $c:block) => {
        unroll!(@$v, $a, 52, $c);
        unroll!(@$v, $a + 52, 52, $c);
    };

    (@$v:ident, $a:expr, 105, $c:block) => {
        unroll!(@$v, $a, 104, $c);
        { const $v: usize = $a + 104; $c }
    };

    (@$v:ident, $a:expr, 106, $c:block) => {
        unroll!(@$v, $a, 53, $c);
        unroll!(@$v, $a + 53, 53, $c);
    };

    (@$v:ident, $a:expr, 107, $c:block) => {
        unroll!(@$v, $a, 106, $c);
        { const $v: usize = $a + 106; $c }
    };

    (@$v:ident, $a:expr, 108, $c:block) => {
        unroll!(@$v, $a, 54, $c);
        unroll!(@$v, $a + 54, 54, $c);
    };

    (@$v:ident, $a:expr, 109, $c:block) => {
        unroll!(@$v, $a, 108, $c);
        { const $v: usize = $a + 108; $c }
    };

    (@$v:ident, $a:expr, 110, $c:block) => {
        unroll!(@$v, $a, 55, $c);
        unroll!(@$v, $a + 55, 55, $c);
    };

    (@$v:ident, $a:expr, 111, $c:block) => {
        unroll!(@$v, $a, 110, $c);
        { const $v: usize = $a + 110; $c }
    };

    (@$v:ident, $a:expr, 112, $c:block) => {
        unroll!(@$v, $a, 56, $c);
        unroll!(@$v, $a + 56, 56, $c);
    };

    (@$v:ident, $a:expr, 113, $c:block) => {
        unroll!(@$v, $a, 112, $c);
        { const $v: usize = $a + 112; $c }
    };

    (@$v:ident, $a:expr, 114, $c:block) => {
        unroll!(@$v, $a, 57, $c);
        unroll!(@$v, $a + 57, 57, $c);
    };

    (@$v:ident, $a:expr, 115, $c:block) => {
        unroll!(@$v, $a, 114, $c);
        { const $v: usize = $a + 114; $c }
    };

    (@$v:ident, $a:expr, 116, $c:block) => {
        unroll!(@$v, $a, 58, $c);
        unroll!(@$v, $a + 58, 58, $c);
    };

    (@$v:ident, $a:expr, 117, $c:block) => {
        unroll!(@$v, $a, 116, $c);
        { const $v: usize = $a + 116; $c }
    };

    (@$v:ident, $a:expr, 118, $c:block) => {
        unroll!(@$v, $a, 59, $c);
        unroll!(@$v, $a + 59, 59, $c);
    };

    (@$v:ident, $a:expr, 119, $c:block) => {
        unroll!(@$v, $a, 118, $c);
        { const $v: usize = $a + 118; $c }
    };

    (@$v:ident, $a:expr, 120, $c:block) => {
        unroll!(@$v, $a, 60, $c);
        unroll!(@$v, $a + 60, 60, $c);
    };

    (@$v:ident, $a:expr, 121, $c:block) => {
        unroll!(@$v, $a, 120, $c);
        { const $v: usize = $a + 120; $c }
    };

    (@$v:ident, $a:expr, 122, $c:block) => {
        unroll!(@$v, $a, 61, $c);
        unroll!(@$v, $a + 61, 61, $c);
    };

    (@$v:ident, $a:expr, 123, $c:block) => {
        unroll!(@$v, $a, 122, $c);
        { const $v: usize = $a + 122; $c }
    };

    (@$v:ident, $a:expr, 124, $c:block) => {
        unroll!(@$v, $a, 62, $c);
        unroll!(@$v, $a + 62, 62, $c);
    };

    (@$v:ident, $a:expr, 125, $c:block) => {
        unroll!(@$v, $a, 124, $c);
        { const $v: usize = $a + 124; $c }
    };

    (@$v:ident, $a:expr, 126, $c:block) => {
        unroll!(@$v, $a, 63, $c);
        unroll!(@$v, $a + 63, 63, $c);
    };

    (@$v:ident, $a:expr, 127, $c:block) => {
        unroll!(@$v, $a, 126, $c);
        { const $v: usize = $a + 126; $c }
    };

    (@$v:ident, $a:expr, 128, $c:block) => {
        unroll!(@$v, $a, 64, $c);
        unroll!(@$v, $a + 64, 64, $c);
    };

}


#[cfg(all(test, feature = "std"))]
mod tests {
    #[test]
    fn invalid_range() {
        let mut a: Vec<usize> = vec![];
        unroll! {
                for i in (5..4) {
                    a.push(i);
                }
            }
        assert_eq!(a, vec![]);
    }

    #[test]
    fn start_at_one_with_step() {
        let mut a: Vec<usize> = vec![];
        unroll! {
                for i in (2..4).step_by(1) {
                    a.push(i);
                }
            }
        assert_eq!(a, vec![2, 3]);
    }

    #[test]
    fn start_at_one() {
        let mut a: Vec<usize> = vec![];
        unroll! {
                for i in 1..4 {
                    a.push(i);
                }
            }
        assert_eq!(a, vec![1, 2, 3]);
    }

    #[test]
    fn test_all() {
        {
            let a: Vec<usize> = vec![];
            unroll! {
                for i in 0..0 {
                    a.push(i);
                }
            }
            assert_eq!(a, (0..0).collect::<Vec<usize>>());
        }
        {
            let mut a: Vec<usize> = vec![];
            unroll! {
                for i in 0..1 {
                    a.push(i);
                }
            }
            assert_eq!(a, (0..1).collect::<Vec<usize>>());
        }
        {
            let mut a: Vec<usize> = vec![];
            unroll! {
                for i in 0..128 {
                    a.push(i);
                }
            }
            assert_eq!(a, (0..128).collect::<Vec<usize>>());
        }
        {
            let mut a: Vec<usize> = vec![];
            let start = 128 / 4;
            let end = start * 3;
            unroll! {
                for i < 128 in start..end {
                    a.push(i);
                }
            }
            assert_eq!(a, (start..end).collect::<Vec<usize>>());
        }
        {
            let mut a: Vec<usize> = vec![];
            unroll! {
                for i in (0..128).step_by(2) {
                    a.push(i);
                }
            }
            assert_eq!(a, (0..128 / 2).map(|x| x * 2).collect::<Vec<usize>>());
        }
        {
            let mut a: Vec<usize> = vec![];
            let start = 128 / 4;
            let end = start * 3;
            unroll! {
                for i < 128 in (start..end).step_by(2) {
                    a.push(i);
                }
            }
            assert_eq!(a, (start..end).filter(|x| x % 2 == 0).collect::<Vec<usize>>());
        }
    }
}
