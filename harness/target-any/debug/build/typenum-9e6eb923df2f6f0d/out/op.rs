
/**
Convenient type operations.

Any types representing values must be able to be expressed as `ident`s. That means they need to be
in scope.

For example, `P5` is okay, but `typenum::P5` is not.

You may combine operators arbitrarily, although doing so excessively may require raising the
recursion limit.

# Example
```rust
#![recursion_limit="128"]
#[macro_use] extern crate typenum;
use typenum::consts::*;

fn main() {
    assert_type!(
        op!(min((P1 - P2) * (N3 + N7), P5 * (P3 + P4)) == P10)
    );
}
```
Operators are evaluated based on the operator precedence outlined
[here](https://doc.rust-lang.org/reference.html#operator-precedence).

The full list of supported operators and functions is as follows:

`*`, `/`, `%`, `+`, `-`, `<<`, `>>`, `&`, `^`, `|`, `==`, `!=`, `<=`, `>=`, `<`, `>`, `cmp`, `sqr`, `sqrt`, `abs`, `cube`, `pow`, `min`, `max`, `log2`, `gcd`

They all expand to type aliases defined in the `operator_aliases` module. Here is an expanded list,
including examples:

---
Operator `*`. Expands to `Prod`.

```rust
# #[macro_use] extern crate typenum;
# use typenum::*;
# fn main() {
assert_type_eq!(op!(P2 * P3), P6);
# }
```

---
Operator `/`. Expands to `Quot`.

```rust
# #[macro_use] extern crate typenum;
# use typenum::*;
# fn main() {
assert_type_eq!(op!(P6 / P2), P3);
# }
```

---
Operator `%`. Expands to `Mod`.

```rust
# #[macro_use] extern crate typenum;
# use typenum::*;
# fn main() {
assert_type_eq!(op!(P5 % P3), P2);
# }
```

---
Operator `+`. Expands to `Sum`.

```rust
# #[macro_use] extern crate typenum;
# use typenum::*;
# fn main() {
assert_type_eq!(op!(P2 + P3), P5);
# }
```

---
Operator `-`. Expands to `Diff`.

```rust
# #[macro_use] extern crate typenum;
# use typenum::*;
# fn main() {
assert_type_eq!(op!(P2 - P3), N1);
# }
```

---
Operator `<<`. Expands to `Shleft`.

```rust
# #[macro_use] extern crate typenum;
# use typenum::*;
# fn main() {
assert_type_eq!(op!(U1 << U5), U32);
# }
```

---
Operator `>>`. Expands to `Shright`.

```rust
# #[macro_use] extern crate typenum;
# use typenum::*;
# fn main() {
assert_type_eq!(op!(U32 >> U5), U1);
# }
```

---
Operator `&`. Expands to `And`.

```rust
# #[macro_use] extern crate typenum;
# use typenum::*;
# fn main() {
assert_type_eq!(op!(U5 & U3), U1);
# }
```

---
Operator `^`. Expands to `Xor`.

```rust
# #[macro_use] extern crate typenum;
# use typenum::*;
# fn main() {
assert_type_eq!(op!(U5 ^ U3), U6);
# }
```

---
Operator `|`. Expands to `Or`.

```rust
# #[macro_use] extern crate typenum;
# use typenum::*;
# fn main() {
assert_type_eq!(op!(U5 | U3), U7);
# }
```

---
Operator `==`. Expands to `Eq`.

```rust
# #[macro_use] extern crate typenum;
# use typenum::*;
# fn main() {
assert_type_eq!(op!(P5 == P3 + P2), True);
# }
```

---
Operator `!=`. Expands to `NotEq`.

```rust
# #[macro_use] extern crate typenum;
# use typenum::*;
# fn main() {
assert_type_eq!(op!(P5 != P3 + P2), False);
# }
```

---
Operator `<=`. Expands to `LeEq`.

```rust
# #[macro_use] extern crate typenum;
# use typenum::*;
# fn main() {
assert_type_eq!(op!(P6 <= P3 + P2), False);
# }
```

---
Operator `>=`. Expands to `GrEq`.

```rust
# #[macro_use] extern crate typenum;
# use typenum::*;
# fn main() {
assert_type_eq!(op!(P6 >= P3 + P2), True);
# }
```

---
Operator `<`. Expands to `Le`.

```rust
# #[macro_use] extern crate typenum;
# use typenum::*;
# fn main() {
assert_type_eq!(op!(P4 < P3 + P2), True);
# }
```

---
Operator `>`. Expands to `Gr`.

```rust
# #[macro_use] extern crate typenum;
# use typenum::*;
# fn main() {
assert_type_eq!(op!(P5 < P3 + P2), False);
# }
```

---
Operator `cmp`. Expands to `Compare`.

```rust
# #[macro_use] extern crate typenum;
# use typenum::*;
# fn main() {
assert_type_eq!(op!(cmp(P2, P3)), Less);
# }
```

---
Operator `sqr`. Expands to `Square`.

```rust
# #[macro_use] extern crate typenum;
# use typenum::*;
# fn main() {
assert_type_eq!(op!(sqr(P2)), P4);
# }
```

---
Operator `sqrt`. Expands to `Sqrt`.

```rust
# #[macro_use] extern crate typenum;
# use typenum::*;
# fn main() {
assert_type_eq!(op!(sqrt(U9)), U3);
# }
```

---
Operator `abs`. Expands to `AbsVal`.

```rust
# #[macro_use] extern crate typenum;
# use typenum::*;
# fn main() {
assert_type_eq!(op!(abs(N2)), P2);
# }
```

---
Operator `cube`. Expands to `Cube`.

```rust
# #[macro_use] extern crate typenum;
# use typenum::*;
# fn main() {
assert_type_eq!(op!(cube(P2)), P8);
# }
```

---
Operator `pow`. Expands to `Exp`.

```rust
# #[macro_use] extern crate typenum;
# use typenum::*;
# fn main() {
assert_type_eq!(op!(pow(P2, P3)), P8);
# }
```

---
Operator `min`. Expands to `Minimum`.

```rust
# #[macro_use] extern crate typenum;
# use typenum::*;
# fn main() {
assert_type_eq!(op!(min(P2, P3)), P2);
# }
```

---
Operator `max`. Expands to `Maximum`.

```rust
# #[macro_use] extern crate typenum;
# use typenum::*;
# fn main() {
assert_type_eq!(op!(max(P2, P3)), P3);
# }
```

---
Operator `log2`. Expands to `Log2`.

```rust
# #[macro_use] extern crate typenum;
# use typenum::*;
# fn main() {
assert_type_eq!(op!(log2(U9)), U3);
# }
```

---
Operator `gcd`. Expands to `Gcf`.

```rust
# #[macro_use] extern crate typenum;
# use typenum::*;
# fn main() {
assert_type_eq!(op!(gcd(U9, U21)), U3);
# }
```

*/
#[macro_export(local_inner_macros)]
macro_rules! op {
    ($($tail:tt)*) => ( __op_internal__!($($tail)*) );
}

    #[doc(hidden)]
    #[macro_export(local_inner_macros)]
    macro_rules! __op_internal__ {

(@stack[$($stack:ident,)*] @queue[$($queue:ident,)*] @tail: cmp $($tail:tt)*) => (
    __op_internal__!(@stack[Compare, $($stack,)*] @queue[$($queue,)*] @tail: $($tail)*)
);
(@stack[$($stack:ident,)*] @queue[$($queue:ident,)*] @tail: sqr $($tail:tt)*) => (
    __op_internal__!(@stack[Square, $($stack,)*] @queue[$($queue,)*] @tail: $($tail)*)
);
(@stack[$($stack:ident,)*] @queue[$($queue:ident,)*] @tail: sqrt $($tail:tt)*) => (
    __op_internal__!(@stack[Sqrt, $($stack,)*] @queue[$($queue,)*] @tail: $($tail)*)
);
(@stack[$($stack:ident,)*] @queue[$($queue:ident,)*] @tail: abs $($tail:tt)*) => (
    __op_internal__!(@stack[AbsVal, $($stack,)*] @queue[$($queue,)*] @tail: $($tail)*)
);
(@stack[$($stack:ident,)*] @queue[$($queue:ident,)*] @tail: cube $($tail:tt)*) => (
    __op_internal__!(@stack[Cube, $($stack,)*] @queue[$($queue,)*] @tail: $($tail)*)
);
(@stack[$($stack:ident,)*] @queue[$($queue:ident,)*] @tail: pow $($tail:tt)*) => (
    __op_internal__!(@stack[Exp, $($stack,)*] @queue[$($queue,)*] @tail: $($tail)*)
);
(@stack[$($stack:ident,)*] @queue[$($queue:ident,)*] @tail: min $($tail:tt)*) => (
    __op_internal__!(@stack[Minimum, $($stack,)*] @queue[$($queue,)*] @tail: $($tail)*)
);
(@stack[$($stack:ident,)*] @queue[$($queue:ident,)*] @tail: max $($tail:tt)*) => (
    __op_internal__!(@stack[Maximum, $($stack,)*] @queue[$($queue,)*] @tail: $($tail)*)
);
(@stack[$($stack:ident,)*] @queue[$($queue:ident,)*] @tail: log2 $($tail:tt)*) => (
    __op_internal__!(@stack[Log2, $($stack,)*] @queue[$($queue,)*] @tail: $($tail)*)
);
(@stack[$($stack:ident,)*] @queue[$($queue:ident,)*] @tail: gcd $($tail:tt)*) => (
    __op_internal__!(@stack[Gcf, $($stack,)*] @queue[$($queue,)*] @tail: $($tail)*)
);
(@stack[LParen, $($stack:ident,)*] @queue[$($queue:ident,)*] @tail: , $($tail:tt)*) => (
    __op_internal__!(@stack[LParen, $($stack,)*] @queue[$($queue,)*] @tail: $($tail)*)
);
(@stack[$stack_top:ident, $($stack:ident,)*] @queue[$($queue:ident,)*] @tail: , $($tail:tt)*) => (
    __op_internal__!(@stack[$($stack,)*] @queue[$stack_top, $($queue,)*] @tail: , $($tail)*)
);
(@stack[Prod, $($stack:ident,)*] @queue[$($queue:ident,)*] @tail: * $($tail:tt)*) => (
    __op_internal__!(@stack[$($stack,)*] @queue[Prod, $($queue,)*] @tail: * $($tail)*)
);
(@stack[Quot, $($stack:ident,)*] @queue[$($queue:ident,)*] @tail: * $($tail:tt)*) => (
    __op_internal__!(@stack[$($stack,)*] @queue[Quot, $($queue,)*] @tail: * $($tail)*)
);
(@stack[Mod, $($stack:ident,)*] @queue[$($queue:ident,)*] @tail: * $($tail:tt)*) => (
    __op_internal__!(@stack[$($stack,)*] @queue[Mod, $($queue,)*] @tail: * $($tail)*)
);
(@stack[$($stack:ident,)*] @queue[$($queue:ident,)*] @tail: * $($tail:tt)*) => (
    __op_internal__!(@stack[Prod, $($stack,)*] @queue[$($queue,)*] @tail: $($tail)*)
);
(@stack[Prod, $($stack:ident,)*] @queue[$($queue:ident,)*] @tail: / $($tail:tt)*) => (
    __op_internal__!(@stack[$($stack,)*] @queue[Prod, $($queue,)*] @tail: / $($tail)*)
);
(@stack[Quot, $($stack:ident,)*] @queue[$($queue:ident,)*] @tail: / $($tail:tt)*) => (
    __op_internal__!(@stack[$($stack,)*] @queue[Quot, $($queue,)*] @tail: / $($tail)*)
);
(@stack[Mod, $($stack:ident,)*] @queue[$($queue:ident,)*] @tail: / $($tail:tt)*) => (
    __op_internal__!(@stack[$($stack,)*] @queue[Mod, $($queue,)*] @tail: / $($tail)*)
);
(@stack[$($stack:ident,)*] @queue[$($queue:ident,)*] @tail: / $($tail:tt)*) => (
    __op_internal__!(@stack[Quot, $($stack,)*] @queue[$($queue,)*] @tail: $($tail)*)
);
(@stack[Prod, $($stack:ident,)*] @queue[$($queue:ident,)*] @tail: % $($tail:tt)*) => (
    __op_internal__!(@stack[$($stack,)*] @queue[Prod, $($queue,)*] @tail: % $($tail)*)
);
(@stack[Quot, $($stack:ident,)*] @queue[$($queue:ident,)*] @tail: % $($tail:tt)*) => (
    __op_internal__!(@stack[$($stack,)*] @queue[Quot, $($queue,)*] @tail: % $($tail)*)
);
(@stack[Mod, $($stack:ident,)*] @queue[$($queue:ident,)*] @tail: % $($tail:tt)*) => (
    __op_internal__!(@stack[$($stack,)*] @queue[Mod, $($queue,)*] @tail: % $($tail)*)
);
(@stack[$($stack:ident,)*] @queue[$($queue:ident,)*] @tail: % $($tail:tt)*) => (
    __op_internal__!(@stack[Mod, $($stack,)*] @queue[$($queue,)*] @tail: $($tail)*)
);
(@stack[Prod, $($stack:ident,)*] @queue[$($queue:ident,)*] @tail: + $($tail:tt)*) => (
    __op_internal__!(@stack[$($stack,)*] @queue[Prod, $($queue,)*] @tail: + $($tail)*)
);
(@stack[Quot, $($stack:ident,)*] @queue[$($queue:ident,)*] @tail: + $($tail:tt)*) => (
    __op_internal__!(@stack[$($stack,)*] @queue[Quot, $($queue,)*] @tail: + $($tail)*)
);
(@stack[Mod, $($stack:ident,)*] @queue[$($queue:ident,)*] @tail: + $($tail:tt)*) => (
    __op_internal__!(@stack[$($stack,)*] @queue[Mod, $($queue,)*] @tail: + $($tail)*)
);
(@stack[Sum, $($stack:ident,)*] @queue[$($queue:ident,)*] @tail: + $($tail:tt)*) => (
    __op_internal__!(@stack[$($stack,)*] @queue[Sum, $($queue,)*] @tail: + $($tail)*)
);
(@stack[Diff, $($stack:ident,)*] @queue[$($queue:ident,)*] @tail: + $($tail:tt)*) => (
    __op_internal__!(@stack[$($stack,)*] @queue[Diff, $($queue,)*] @tail: + $($tail)*)
);
(@stack[$($stack:ident,)*] @queue[$($queue:ident,)*] @tail: + $($tail:tt)*) => (
    __op_internal__!(@stack[Sum, $($stack,)*] @queue[$($queue,)*] @tail: $($tail)*)
);
(@stack[Prod, $($stack:ident,)*] @queue[$($queue:ident,)*] @tail: - $($tail:tt)*) => (
    __op_internal__!(@stack[$($stack,)*] @queue[Prod, $($queue,)*] @tail: - $($tail)*)
);
(@stack[Quot, $($stack:ident,)*] @queue[$($queue:ident,)*] @tail: - $($tail:tt)*) => (
    __op_internal__!(@stack[$($stack,)*] @queue[Quot, $($queue,)*] @tail: - $($tail)*)
);
(@stack[Mod, $($stack:ident,)*] @queue[$($queue:ident,)*] @tail: - $($tail:tt)*) => (
    __op_internal__!(@stack[$($stack,)*] @queue[Mod, $($queue,)*] @tail: - $($tail)*)
);
(@stack[Sum, $($stack:ident,)*] @queue[$($queue:ident,)*] @tail: - $($tail:tt)*) => (
    __op_internal__!(@stack[$($stack,)*] @queue[Sum, $($queue,)*] @tail: - $($tail)*)
);
(@stack[Diff, $($stack:ident,)*] @queue[$($queue:ident,)*] @tail: - $($tail:tt)*) => (
    __op_internal__!(@stack[$($stack,)*] @queue[Diff, $($queue,)*] @tail: - $($tail)*)
);
(@stack[$($stack:ident,)*] @queue[$($queue:ident,)*] @tail: - $($tail:tt)*) => (
    __op_internal__!(@stack[Diff, $($stack,)*] @queue[$($queue,)*] @tail: $($tail)*)
);
(@stack[Prod, $($stack:ident,)*] @queue[$($queue:ident,)*] @tail: << $($tail:tt)*) => (
    __op_internal__!(@stack[$($stack,)*] @queue[Prod, $($queue,)*] @tail: << $($tail)*)
);
(@stack[Quot, $($stack:ident,)*] @queue[$($queue:ident,)*] @tail: << $($tail:tt)*) => (
    __op_internal__!(@stack[$($stack,)*] @queue[Quot, $($queue,)*] @tail: << $($tail)*)
);
(@stack[Mod, $($stack:ident,)*] @queue[$($queue:ident,)*] @tail: << $($tail:tt)*) => (
    __op_internal__!(@stack[$($stack,)*] @queue[Mod, $($queue,)*] @tail: << $($tail)*)
);
(@stack[Sum, $($stack:ident,)*] @queue[$($queue:ident,)*] @tail: << $($tail:tt)*) => (
    __op_internal__!(@stack[$($stack,)*] @queue[Sum, $($queue,)*] @tail: << $($tail)*)
);
(@stack[Diff, $($stack:ident,)*] @queue[$($queue:ident,)*] @tail: << $($tail:tt)*) => (
    __op_internal__!(@stack[$($stack,)*] @queue[Diff, $($queue,)*] @tail: << $($tail)*)
);
(@stack[Shleft, $($stack:ident,)*] @queue[$($queue:ident,)*] @tail: << $($tail:tt)*) => (
    __op_internal__!(@stack[$($stack,)*] @queue[Shleft, $($queue,)*] @tail: << $($tail)*)
);
(@stack[Shright, $($stack:ident,)*] @queue[$($queue:ident,)*] @tail: << $($tail:tt)*) => (
    __op_internal__!(@stack[$($stack,)*] @queue[Shright, $($queue,)*] @tail: << $($tail)*)
);
(@stack[$($stack:ident,)*] @queue[$($queue:ident,)*] @tail: << $($tail:tt)*) => (
    __op_internal__!(@stack[Shleft, $($stack,)*] @queue[$($queue,)*] @tail: $($tail)*)
);
(@stack[Prod, $($stack:ident,)*] @queue[$($queue:ident,)*] @tail: >> $($tail:tt)*) => (
    __op_internal__!(@stack[$($stack,)*] @queue[Prod, $($queue,)*] @tail: >> $($tail)*)
);
(@stack[Quot, $($stack:ident,)*] @queue[$($queue:ident,)*] @tail: >> $($tail:tt)*) => (
    __op_internal__!(@stack[$($stack,)*] @queue[Quot, $($queue,)*] @tail: >> $($tail)*)
);
(@stack[Mod, $($stack:ident,)*] @queue[$($queue:ident,)*] @tail: >> $($tail:tt)*) => (
    __op_internal__!(@stack[$($stack,)*] @queue[Mod, $($queue,)*] @tail: >> $($tail)*)
);
(@stack[Sum, $($stack:ident,)*] @queue[$($queue:ident,)*] @tail: >> $($tail:tt)*) => (
    __op_internal__!(@stack[$($stack,)*] @queue[Sum, $($queue,)*] @tail: >> $($tail)*)
);
(@stack[Diff, $($stack:ident,)*] @queue[$($queue:ident,)*] @tail: >> $($tail:tt)*) => (
    __op_internal__!(@stack[$($stack,)*] @queue[Diff, $($queue,)*] @tail: >> $($tail)*)
);
(@stack[Shleft, $($stack:ident,)*] @queue[$($queue:ident,)*] @tail: >> $($tail:tt)*) => (
    __op_internal__!(@stack[$($stack,)*] @queue[Shleft, $($queue,)*] @tail: >> $($tail)*)
);
(@stack[Shright, $($stack:ident,)*] @queue[$($queue:ident,)*] @tail: >> $($tail:tt)*) => (
    __op_internal__!(@stack[$($stack,)*] @queue[Shright, $($queue,)*] @tail: >> $($tail)*)
);
(@stack[$($stack:ident,)*] @queue[$($queue:ident,)*] @tail: >> $($tail:tt)*) => (
    __op_internal__!(@stack[Shright, $($stack,)*] @queue[$($queue,)*] @tail: $($tail)*)
);
(@stack[Prod, $($stack:ident,)*] @queue[$($queue:ident,)*] @tail: & $($tail:tt)*) => (
    __op_internal__!(@stack[$($stack,)*] @queue[Prod, $($queue,)*] @tail: & $($tail)*)
);
(@stack[Quot, $($stack:ident,)*] @queue[$($queue:ident,)*] @tail: & $($tail:tt)*) => (
    __op_internal__!(@stack[$($stack,)*] @queue[Quot, $($queue,)*] @tail: & $($tail)*)
);
(@stack[Mod, $($stack:ident,)*] @queue[$($queue:ident,)*] @tail: & $($tail:tt)*) => (
    __op_internal__!(@stack[$($stack,)*] @queue[Mod, $($queue,)*] @tail: & $($tail)*)
);
(@stack[Sum, $($stack:ident,)*] @queue[$($queue:ident,)*] @tail: & $($tail:tt)*) => (
    __op_internal__!(@stack[$($stack,)*] @queue[Sum, $($queue,)*] @tail: & $($tail)*)
);
(@stack[Diff, $($stack:ident,)*] @queue[$($queue:ident,)*] @tail: & $($tail:tt)*) => (
    __op_internal__!(@stack[$($stack,)*] @queue[Diff, $($queue,)*] @tail: & $($tail)*)
);
(@stack[Shleft, $($stack:ident,)*] @queue[$($queue:ident,)*] @tail: & $($tail:tt)*) => (
    __op_internal__!(@stack[$($stack,)*] @queue[Shleft, $($queue,)*] @tail: & $($tail)*)
);
(@stack[Shright, $($stack:ident,)*] @queue[$($queue:ident,)*] @tail: & $($tail:tt)*) => (
    __op_internal__!(@stack[$($stack,)*] @queue[Shright, $($queue,)*] @tail: & $($tail)*)
);
(@stack[And, $($stack:ident,)*] @queue[$($queue:ident,)*] @tail: & $($tail:tt)*) => (
    __op_internal__!(@stack[$($stack,)*] @queue[And, $($queue,)*] @tail: & $($tail)*)
);
(@stack[$($stack:ident,)*] @queue[$($queue:ident,)*] @tail: & $($tail:tt)*) => (
    __op_internal__!(@stack[And, $($stack,)*] @queue[$($queue,)*] @tail: $($tail)*)
);
(@stack[Prod, $($stack:ident,)*] @queue[$($queue:ident,)*] @tail: ^ $($tail:tt)*) => (
    __op_internal__!(@stack[$($stack,)*] @queue[Prod, $($queue,)*] @tail: ^ $($tail)*)
);
(@stack[Quot, $($stack:ident,)*] @queue[$($queue:ident,)*] @tail: ^ $($tail:tt)*) => (
    __op_internal__!(@stack[$($stack,)*] @queue[Quot, $($queue,)*] @tail: ^ $($tail)*)
);
(@stack[Mod, $($stack:ident,)*] @queue[$($queue:ident,)*] @tail: ^ $($tail:tt)*) => (
    __op_internal__!(@stack[$($stack,)*] @queue[Mod, $($queue,)*] @tail: ^ $($tail)*)
);
(@stack[Sum, $($stack:ident,)*] @queue[$($queue:ident,)*] @tail: ^ $($tail:tt)*) => (
    __op_internal__!(@stack[$($stack,)*] @queue[Sum, $($queue,)*] @tail: ^ $($tail)*)
);
(@stack[Diff, $($stack:ident,)*] @queue[$($queue:ident,)*] @tail: ^ $($tail:tt)*) => (
    __op_internal__!(@stack[$($stack,)*] @queue[Diff, $($queue,)*] @tail: ^ $($tail)*)
);
(@stack[Shleft, $($stack:ident,)*] @queue[$($queue:ident,)*] @tail: ^ $($tail:tt)*) => (
    __op_internal__!(@stack[$($stack,)*] @queue[Shleft, $($queue,)*] @tail: ^ $($tail)*)
);
(@stack[Shright, $($stack:ident,)*] @queue[$($queue:ident,)*] @tail: ^ $($tail:tt)*) => (
    __op_internal__!(@stack[$($stack,)*] @queue[Shright, $($queue,)*] @tail: ^ $($tail)*)
);
(@stack[And, $($stack:ident,)*] @queue[$($queue:ident,)*] @tail: ^ $($tail:tt)*) => (
    __op_internal__!(@stack[$($stack,)*] @queue[And, $($queue,)*] @tail: ^ $($tail)*)
);
(@stack[Xor, $($stack:ident,)*] @queue[$($queue:ident,)*] @tail: ^ $($tail:tt)*) => (
    __op_internal__!(@stack[$($stack,)*] @queue[Xor, $($queue,)*] @tail: ^ $($tail)*)
);
(@stack[$($stack:ident,)*] @queue[$($queue:ident,)*] @tail: ^ $($tail:tt)*) => (
    __op_internal__!(@stack[Xor, $($stack,)*] @queue[$($queue,)*] @tail: $($tail)*)
);
(@stack[Prod, $($stack:ident,)*] @queue[$($queue:ident,)*] @tail: | $($tail:tt)*) => (
    __op_internal__!(@stack[$($stack,)*] @queue[Prod, $($queue,)*] @tail: | $($tail)*)
);
(@stack[Quot, $($stack:ident,)*] @queue[$($queue:ident,)*] @tail: | $($tail:tt)*) => (
    __op_internal__!(@stack[$($stack,)*] @queue[Quot, $($queue,)*] @tail: | $($tail)*)
);
(@stack[Mod, $($stack:ident,)*] @queue[$($queue:ident,)*] @tail: | $($tail:tt)*) => (
    __op_internal__!(@stack[$($stack,)*] @queue[Mod, $($queue,)*] @tail: | $($tail)*)
);
(@stack[Sum, $($stack:ident,)*] @queue[$($queue:ident,)*] @tail: | $($tail:tt)*) => (
    __op_internal__!(@stack[$($stack,)*] @queue[Sum, $($queue,)*] @tail: | $($tail)*)
);
(@stack[Diff, $($stack:ident,)*] @queue[$($queue:ident,)*] @tail: | $($tail:tt)*) => (
    __op_internal__!(@stack[$($stack,)*] @queue[Diff, $($queue,)*] @tail: | $($tail)*)
);
(@stack[Shleft, $($stack:ident,)*] @queue[$($queue:ident,)*] @tail: | $($tail:tt)*) => (
    __op_internal__!(@stack[$($stack,)*] @queue[Shleft, $($queue,)*] @tail: | $($tail)*)
);
(@stack[Shright, $($stack:ident,)*] @queue[$($queue:ident,)*] @tail: | $($tail:tt)*) => (
    __op_internal__!(@stack[$($stack,)*] @queue[Shright, $($queue,)*] @tail: | $($tail)*)
);
(@stack[And, $($stack:ident,)*] @queue[$($queue:ident,)*] @tail: | $($tail:tt)*) => (
    __op_internal__!(@stack[$($stack,)*] @queue[And, $($queue,)*] @tail: | $($tail)*)
);
(@stack[Xor, $($stack:ident,)*] @queue[$($queue:ident,)*] @tail: | $($tail:tt)*) => (
    __op_internal__!(@stack[$($stack,)*] @queue[Xor, $($queue,)*] @tail: | $($tail)*)
);
(@stack[Or, $($stack:ident,)*] @queue[$($queue:ident,)*] @tail: | $($tail:tt)*) => (
    __op_internal__!(@stack[$($stack,)*] @queue[Or, $($queue,)*] @tail: | $($tail)*)
);
(@stack[$($stack:ident,)*] @queue[$($queue:ident,)*] @tail: | $($tail:tt)*) => (
    __op_internal__!(@stack[Or, $($stack,)*] @queue[$($queue,)*] @tail: $($tail)*)
);
(@stack[Prod, $($stack:ident,)*] @queue[$($queue:ident,)*] @tail: == $($tail:tt)*) => (
    __op_internal__!(@stack[$($stack,)*] @queue[Prod, $($queue,)*] @tail: == $($tail)*)
);
(@stack[Quot, $($stack:ident,)*] @queue[$($queue:ident,)*] @tail: == $($tail:tt)*) => (
    __op_internal__!(@stack[$($stack,)*] @queue[Quot, $($queue,)*] @tail: == $($tail)*)
);
(@stack[Mod, $($stack:ident,)*] @queue[$($queue:ident,)*] @tail: == $($tail:tt)*) => (
    __op_internal__!(@stack[$($stack,)*] @queue[Mod, $($queue,)*] @tail: == $($tail)*)
);
(@stack[Sum, $($stack:ident,)*] @queue[$($queue:ident,)*] @tail: == $($tail:tt)*) => (
    __op_internal__!(@stack[$($stack,)*] @queue[Sum, $($queue,)*] @tail: == $($tail)*)
);
(@stack[Diff, $($stack:ident,)*] @queue[$($queue:ident,)*] @tail: == $($tail:tt)*) => (
    __op_internal__!(@stack[$($stack,)*] @queue[Diff, $($queue,)*] @tail: == $($tail)*)
);
(@stack[Shleft, $($stack:ident,)*] @queue[$($queue:ident,)*] @tail: == $($tail:tt)*) => (
    __op_internal__!(@stack[$($stack,)*] @queue[Shleft, $($queue,)*] @tail: == $($tail)*)
);
(@stack[Shright, $($stack:ident,)*] @queue[$($queue:ident,)*] @tail: == $($tail:tt)*) => (
    __op_internal__!(@stack[$($stack,)*] @queue[Shright, $($queue,)*] @tail: == $($tail)*)
);
(@stack[And, $($stack:ident,)*] @queue[$($queue:ident,)*] @tail: == $($tail:tt)*) => (
    __op_internal__!(@stack[$($stack,)*] @queue[And, $($queue,)*] @tail: == $($tail)*)
);
(@stack[Xor, $($stack:ident,)*] @queue[$($queue:ident,)*] @tail: == $($tail:tt)*) => (
    __op_internal__!(@stack[$($stack,)*] @queue[Xor, $($queue,)*] @tail: == $($tail)*)
);
(@stack[Or, $($stack:ident,)*] @queue[$($queue:ident,)*] @tail: == $($tail:tt)*) => (
    __op_internal__!(@stack[$($stack,)*] @queue[Or, $($queue,)*] @tail: == $($tail)*)
);
(@stack[Eq, $($stack:ident,)*] @queue[$($queue:ident,)*] @tail: == $($tail:tt)*) => (
    __op_internal__!(@stack[$($stack,)*] @queue[Eq, $($queue,)*] @tail: == $($tail)*)
);
(@stack[NotEq, $($stack:ident,)*] @queue[$($queue:ident,)*] @tail: == $($tail:tt)*) => (
    __op_internal__!(@stack[$($stack,)*] @queue[NotEq, $($queue,)*] @tail: == $($tail)*)
);
(@stack[LeEq, $($stack:ident,)*] @queue[$($queue:ident,)*] @tail: == $($tail:tt)*) => (
    __op_internal__!(@stack[$($stack,)*] @queue[LeEq, $($queue,)*] @tail: == $($tail)*)
);
(@stack[GrEq, $($stack:ident,)*] @queue[$($queue:ident,)*] @tail: == $($tail:tt)*) => (
    __op_internal__!(@stack[$($stack,)*] @queue[GrEq, $($queue,)*] @tail: == $($tail)*)
);
(@stack[Le, $($stack:ident,)*] @queue[$($queue:ident,)*] @tail: == $($tail:tt)*) => (
    __op_internal__!(@stack[$($stack,)*] @queue[Le, $($queue,)*] @tail: == $($tail)*)
);
(@stack[Gr, $($stack:ident,)*] @queue[$($queue:ident,)*] @tail: == $($tail:tt)*) => (
    __op_internal__!(@stack[$($stack,)*] @queue[Gr, $($queue,)*] @tail: == $($tail)*)
);
(@stack[$($stack:ident,)*] @queue[$($queue:ident,)*] @tail: == $($tail:tt)*) => (
    __op_internal__!(@stack[Eq, $($stack,)*] @queue[$($queue,)*] @tail: $($tail)*)
);
(@stack[Prod, $($stack:ident,)*] @queue[$($queue:ident,)*] @tail: != $($tail:tt)*) => (
    __op_internal__!(@stack[$($stack,)*] @queue[Prod, $($queue,)*] @tail: != $($tail)*)
);
(@stack[Quot, $($stack:ident,)*] @queue[$($queue:ident,)*] @tail: != $($tail:tt)*) => (
    __op_internal__!(@stack[$($stack,)*] @queue[Quot, $($queue,)*] @tail: != $($tail)*)
);
(@stack[Mod, $($stack:ident,)*] @queue[$($queue:ident,)*] @tail: != $($tail:tt)*) => (
    __op_internal__!(@stack[$($stack,)*] @queue[Mod, $($queue,)*] @tail: != $($tail)*)
);
(@stack[Sum, $($stack:ident,)*] @queue[$($queue:ident,)*] @tail: != $($tail:tt)*) => (
    __op_internal__!(@stack[$($stack,)*] @queue[Sum, $($queue,)*] @tail: != $($tail)*)
);
(@stack[Diff, $($stack:ident,)*] @queue[$($queue:ident,)*] @tail: != $($tail:tt)*) => (
    __op_internal__!(@stack[$($stack,)*] @queue[Diff, $($queue,)*] @tail: != $($tail)*)
);
(@stack[Shleft, $($stack:ident,)*] @queue[$($queue:ident,)*] @tail: != $($tail:tt)*) => (
    __op_internal__!(@stack[$($stack,)*] @queue[Shleft, $($queue,)*] @tail: != $($tail)*)
);
(@stack[Shright, $($stack:ident,)*] @queue[$($queue:ident,)*] @tail: != $($tail:tt)*) => (
    __op_internal__!(@stack[$($stack,)*] @queue[Shright, $($queue,)*] @tail: != $($tail)*)
);
(@stack[And, $($stack:ident,)*] @queue[$($queue:ident,)*] @tail: != $($tail:tt)*) => (
    __op_internal__!(@stack[$($stack,)*] @queue[And, $($queue,)*] @tail: != $($tail)*)
);
(@stack[Xor, $($stack:ident,)*] @queue[$($queue:ident,)*] @tail: != $($tail:tt)*) => (
    __op_internal__!(@stack[$($stack,)*] @queue[Xor, $($queue,)*] @tail: != $($tail)*)
);
(@stack[Or, $($stack:ident,)*] @queue[$($queue:ident,)*] @tail: != $($tail:tt)*) => (
    __op_internal__!(@stack[$($stack,)*] @queue[Or, $($queue,)*] @tail: != $($tail)*)
);
(@stack[Eq, $($stack:ident,)*] @queue[$($queue:ident,)*] @tail: != $($tail:tt)*) => (
    __op_internal__!(@stack[$($stack,)*] @queue[Eq, $($queue,)*] @tail: != $($tail)*)
);
(@stack[NotEq, $($stack:ident,)*] @queue[$($queue:ident,)*] @tail: != $($tail:tt)*) => (
    __op_internal__!(@stack[$($stack,)*] @queue[NotEq, $($queue,)*] @tail: != $($tail)*)
);
(@stack[LeEq, $($stack:ident,)*] @queue[$($queue:ident,)*] @tail: != $($tail:tt)*) => (
    __op_internal__!(@stack[$($stack,)*] @queue[LeEq, $($queue,)*] @tail: != $($tail)*)
);
(@stack[GrEq, $($stack:ident,)*] @queue[$($queue:ident,)*] @tail: != $($tail:tt)*) => (
    __op_internal__!(@stack[$($stack,)*] @queue[GrEq, $($queue,)*] @tail: != $($tail)*)
);
(@stack[Le, $($stack:ident,)*] @queue[$($queue:ident,)*] @tail: != $($tail:tt)*) => (
    __op_internal__!(@stack[$($stack,)*] @queue[Le, $($queue,)*] @tail: != $($tail)*)
);
(@stack[Gr, $($stack:ident,)*] @queue[$($queue:ident,)*] @tail: != $($tail:tt)*) => (
    __op_internal__!(@stack[$($stack,)*] @queue[Gr, $($queue,)*] @tail: != $($tail)*)
);
(@stack[$($stack:ident,)*] @queue[$($queue:ident,)*] @tail: != $($tail:tt)*) => (
    __op_internal__!(@stack[NotEq, $($stack,)*] @queue[$($queue,)*] @tail: $($tail)*)
);
(@stack[Prod, $($stack:ident,)*] @queue[$($queue:ident,)*] @tail: <= $($tail:tt)*) => (
    __op_internal__!(@stack[$($stack,)*] @queue[Prod, $($queue,)*] @tail: <= $($tail)*)
);
(@stack[Quot, $($stack:ident,)*] @queue[$($queue:ident,)*] @tail: <= $($tail:tt)*) => (
    __op_internal__!(@stack[$($stack,)*] @queue[Quot, $($queue,)*] @tail: <= $($tail)*)
);
(@stack[Mod, $($stack:ident,)*] @queue[$($queue:ident,)*] @tail: <= $($tail:tt)*) => (
    __op_internal__!(@stack[$($stack,)*] @queue[Mod, $($queue,)*] @tail: <= $($tail)*)
);
(@stack[Sum, $($stack:ident,)*] @queue[$($queue:ident,)*] @tail: <= $($tail:tt)*) => (
    __op_internal__!(@stack[$($stack,)*] @queue[Sum, $($queue,)*] @tail: <= $($tail)*)
);
(@stack[Diff, $($stack:ident,)*] @queue[$($queue:ident,)*] @tail: <= $($tail:tt)*) => (
    __op_internal__!(@stack[$($stack,)*] @queue[Diff, $($queue,)*] @tail: <= $($tail)*)
);
(@stack[Shleft, $($stack:ident,)*] @queue[$($queue:ident,)*] @tail: <= $($tail:tt)*) => (
    __op_internal__!(@stack[$($stack,)*] @queue[Shleft, $($queue,)*] @tail: <= $($tail)*)
);
(@stack[Shright, $($stack:ident,)*] @queue[$($queue:ident,)*] @tail: <= $($tail:tt)*) => (
    __op_internal__!(@stack[$($stack,)*] @queue[Shright, $($queue,)*] @tail: <= $($tail)*)
);
(@stack[And, $($stack:ident,)*] @queue[$($queue:ident,)*] @tail: <= $($tail:tt)*) => (
    __op_internal__!(@stack[$($stack,)*] @queue[And, $($queue,)*] @tail: <= $($tail)*)
);
(@stack[Xor, $($stack:ident,)*] @queue[$($queue:ident,)*] @tail: <= $($tail:tt)*) => (
    __op_internal__!(@stack[$($stack,)*] @queue[Xor, $($queue,)*] @tail: <= $($tail)*)
);
(@stack[Or, $($stack:ident,)*] @queue[$($queue:ident,)*] @tail: <= $($tail:tt)*) => (
    __op_internal__!(@stack[$($stack,)*] @queue[Or, $($queue,)*] @tail: <= $($tail)*)
);
(@stack[Eq, $($stack:ident,)*] @queue[$($queue:ident,)*] @tail: <= $($tail:tt)*) => (
    __op_internal__!(@stack[$($stack,)*] @queue[Eq, $($queue,)*] @tail: <= $($tail)*)
);
(@stack[NotEq, $($stack:ident,)*] @queue[$($queue:ident,)*] @tail: <= $($tail:tt)*) => (
    __op_internal__!(@stack[$($stack,)*] @queue[NotEq, $($queue,)*] @tail: <= $($tail)*)
);
(@stack[LeEq, $($stack:ident,)*] @queue[$($queue:ident,)*] @tail: <= $($tail:tt)*) => (
    __op_internal__!(@stack[$($stack,)*] @queue[LeEq, $($queue,)*] @tail: <= $($tail)*)
);
(@stack[GrEq, $($stack:ident,)*] @queue[$($queue:ident,)*] @tail: <= $($tail:tt)*) => (
    __op_internal__!(@stack[$($stack,)*] @queue[GrEq, $($queue,)*] @tail: <= $($tail)*)
);
(@stack[Le, $($stack:ident,)*] @queue[$($queue:ident,)*] @tail: <= $($tail:tt)*) => (
    __op_internal__!(@stack[$($stack,)*] @queue[Le, $($queue,)*] @tail: <= $($tail)*)
);
(@stack[Gr, $($stack:ident,)*] @queue[$($queue:ident,)*] @tail: <= $($tail:tt)*) => (
    __op_internal__!(@stack[$($stack,)*] @queue[Gr, $($queue,)*] @tail: <= $($tail)*)
);
(@stack[$($stack:ident,)*] @queue[$($queue:ident,)*] @tail: <= $($tail:tt)*) => (
    __op_internal__!(@stack[LeEq, $($stack,)*] @queue[$($queue,)*] @tail: $($tail)*)
);
(@stack[Prod, $($stack:ident,)*] @queue[$($queue:ident,)*] @tail: >= $($tail:tt)*) => (
    __op_internal__!(@stack[$($stack,)*] @queue[Prod, $($queue,)*] @tail: >= $($tail)*)
);
(@stack[Quot, $($stack:ident,)*] @queue[$($queue:ident,)*] @tail: >= $($tail:tt)*) => (
    __op_internal__!(@stack[$($stack,)*] @queue[Quot, $($queue,)*] @tail: >= $($tail)*)
);
(@stack[Mod, $($stack:ident,)*] @queue[$($queue:ident,)*] @tail: >= $($tail:tt)*) => (
    __op_internal__!(@stack[$($stack,)*] @queue[Mod, $($queue,)*] @tail: >= $($tail)*)
);
(@stack[Sum, $($stack:ident,)*] @queue[$($queue:ident,)*] @tail: >= $($tail:tt)*) => (
    __op_internal__!(@stack[$($stack,)*] @queue[Sum, $($queue,)*] @tail: >= $($tail)*)
);
(@stack[Diff, $($stack:ident,)*] @queue[$($queue:ident,)*] @tail: >= $($tail:tt)*) => (
    __op_internal__!(@stack[$($stack,)*] @queue[Diff, $($queue,)*] @tail: >= $($tail)*)
);
(@stack[Shleft, $($stack:ident,)*] @queue[$($queue:ident,)*] @tail: >= $($tail:tt)*) => (
    __op_internal__!(@stack[$($stack,)*] @queue[Shleft, $($queue,)*] @tail: >= $($tail)*)
);
(@stack[Shright, $($stack:ident,)*] @queue[$($queue:ident,)*] @tail: >= $($tail:tt)*) => (
    __op_internal__!(@stack[$($stack,)*] @queue[Shright, $($queue,)*] @tail: >= $($tail)*)
);
(@stack[And, $($stack:ident,)*] @queue[$($queue:ident,)*] @tail: >= $($tail:tt)*) => (
    __op_internal__!(@stack[$($stack,)*] @queue[And, $($queue,)*] @tail: >= $($tail)*)
);
(@stack[Xor, $($stack:ident,)*] @queue[$($queue:ident,)*] @tail: >= $($tail:tt)*) => (
    __op_internal__!(@stack[$($stack,)*] @queue[Xor, $($queue,)*] @tail: >= $($tail)*)
);
(@stack[Or, $($stack:ident,)*] @queue[$($queue:ident,)*] @tail: >= $($tail:tt)*) => (
    __op_internal__!(@stack[$($stack,)*] @queue[Or, $($queue,)*] @tail: >= $($tail)*)
);
(@stack[Eq, $($stack:ident,)*] @queue[$($queue:ident,)*] @tail: >= $($tail:tt)*) => (
    __op_internal__!(@stack[$($stack,)*] @queue[Eq, $($queue,)*] @tail: >= $($tail)*)
);
(@stack[NotEq, $($stack:ident,)*] @queue[$($queue:ident,)*] @tail: >= $($tail:tt)*) => (
    __op_internal__!(@stack[$($stack,)*] @queue[NotEq, $($queue,)*] @tail: >= $($tail)*)
);
(@stack[LeEq, $($stack:ident,)*] @queue[$($queue:ident,)*] @tail: >= $($tail:tt)*) => (
    __op_internal__!(@stack[$($stack,)*] @queue[LeEq, $($queue,)*] @tail: >= $($tail)*)
);
(@stack[GrEq, $($stack:ident,)*] @queue[$($queue:ident,)*] @tail: >= $($tail:tt)*) => (
    __op_internal__!(@stack[$($stack,)*] @queue[GrEq, $($queue,)*] @tail: >= $($tail)*)
);
(@stack[Le, $($stack:ident,)*] @queue[$($queue:ident,)*] @tail: >= $($tail:tt)*) => (
    __op_internal__!(@stack[$($stack,)*] @queue[Le, $($queue,)*] @tail: >= $($tail)*)
);
(@stack[Gr, $($stack:ident,)*] @queue[$($queue:ident,)*] @tail: >= $($tail:tt)*) => (
    __op_internal__!(@stack[$($stack,)*] @queue[Gr, $($queue,)*] @tail: >= $($tail)*)
);
(@stack[$($stack:ident,)*] @queue[$($queue:ident,)*] @tail: >= $($tail:tt)*) => (
    __op_internal__!(@stack[GrEq, $($stack,)*] @queue[$($queue,)*] @tail: $($tail)*)
);
(@stack[Prod, $($stack:ident,)*] @queue[$($queue:ident,)*] @tail: < $($tail:tt)*) => (
    __op_internal__!(@stack[$($stack,)*] @queue[Prod, $($queue,)*] @tail: < $($tail)*)
);
(@stack[Quot, $($stack:ident,)*] @queue[$($queue:ident,)*] @tail: < $($tail:tt)*) => (
    __op_internal__!(@stack[$($stack,)*] @queue[Quot, $($queue,)*] @tail: < $($tail)*)
);
(@stack[Mod, $($stack:ident,)*] @queue[$($queue:ident,)*] @tail: < $($tail:tt)*) => (
    __op_internal__!(@stack[$($stack,)*] @queue[Mod, $($queue,)*] @tail: < $($tail)*)
);
(@stack[Sum, $($stack:ident,)*] @queue[$($queue:ident,)*] @tail: < $($tail:tt)*) => (
    __op_internal__!(@stack[$($stack,)*] @queue[Sum, $($queue,)*] @tail: < $($tail)*)
);
(@stack[Diff, $($stack:ident,)*] @queue[$($queue:ident,)*] @tail: < $($tail:tt)*) => (
    __op_internal__!(@stack[$($stack,)*] @queue[Diff, $($queue,)*] @tail: < $($tail)*)
);
(@stack[Shleft, $($stack:ident,)*] @queue[$($queue:ident,)*] @tail: < $($tail:tt)*) => (
    __op_internal__!(@stack[$($stack,)*] @queue[Shleft, $($queue,)*] @tail: < $($tail)*)
);
(@stack[Shright, $($stack:ident,)*] @queue[$($queue:ident,)*] @tail: < $($tail:tt)*) => (
    __op_internal__!(@stack[$($stack,)*] @queue[Shright, $($queue,)*] @tail: < $($tail)*)
);
(@stack[And, $($stack:ident,)*] @queue[$($queue:ident,)*] @tail: < $($tail:tt)*) => (
    __op_internal__!(@stack[$($stack,)*] @queue[And, $($queue,)*] @tail: < $($tail)*)
);
(@stack[Xor, $($stack:ident,)*] @queue[$($queue:ident,)*] @tail: < $($tail:tt)*) => (
    __op_internal__!(@stack[$($stack,)*] @queue[Xor, $($queue,)*] @tail: < $($tail)*)
);
(@stack[Or, $($stack:ident,)*] @queue[$($queue:ident,)*] @tail: < $($tail:tt)*) => (
    __op_internal__!(@stack[$($stack,)*] @queue[Or, $($queue,)*] @tail: < $($tail)*)
);
(@stack[Eq, $($stack:ident,)*] @queue[$($queue:ident,)*] @tail: < $($tail:tt)*) => (
    __op_internal__!(@stack[$($stack,)*] @queue[Eq, $($queue,)*] @tail: < $($tail)*)
);
(@stack[NotEq, $($stack:ident,)*] @queue[$($queue:ident,)*] @tail: < $($tail:tt)*) => (
    __op_internal__!(@stack[$($stack,)*] @queue[NotEq, $($queue,)*] @tail: < $($tail)*)
);
(@stack[LeEq, $($stack:ident,)*] @queue[$($queue:ident,)*] @tail: < $($tail:tt)*) => (
    __op_internal__!(@stack[$($stack,)*] @queue[LeEq, $($queue,)*] @tail: < $($tail)*)
);
(@stack[GrEq, $($stack:ident,)*] @queue[$($queue:ident,)*] @tail: < $($tail:tt)*) => (
    __op_internal__!(@stack[$($stack,)*] @queue[GrEq, $($queue,)*] @tail: < $($tail)*)
);
(@stack[Le, $($stack:ident,)*] @queue[$($queue:ident,)*] @tail: < $($tail:tt)*) => (
    __op_internal__!(@stack[$($stack,)*] @queue[Le, $($queue,)*] @tail: < $($tail)*)
);
(@stack[Gr, $($stack:ident,)*] @queue[$($queue:ident,)*] @tail: < $($tail:tt)*) => (
    __op_internal__!(@stack[$($stack,)*] @queue[Gr, $($queue,)*] @tail: < $($tail)*)
);
(@stack[$($stack:ident,)*] @queue[$($queue:ident,)*] @tail: < $($tail:tt)*) => (
    __op_internal__!(@stack[Le, $($stack,)*] @queue[$($queue,)*] @tail: $($tail)*)
);
(@stack[Prod, $($stack:ident,)*] @queue[$($queue:ident,)*] @tail: > $($tail:tt)*) => (
    __op_internal__!(@stack[$($stack,)*] @queue[Prod, $($queue,)*] @tail: > $($tail)*)
);
(@stack[Quot, $($stack:ident,)*] @queue[$($queue:ident,)*] @tail: > $($tail:tt)*) => (
    __op_internal__!(@stack[$($stack,)*] @queue[Quot, $($queue,)*] @tail: > $($tail)*)
);
(@stack[Mod, $($stack:ident,)*] @queue[$($queue:ident,)*] @tail: > $($tail:tt)*) => (
    __op_internal__!(@stack[$($stack,)*] @queue[Mod, $($queue,)*] @tail: > $($tail)*)
);
(@stack[Sum, $($stack:ident,)*] @queue[$($queue:ident,)*] @tail: > $($tail:tt)*) => (
    __op_internal__!(@stack[$($stack,)*] @queue[Sum, $($queue,)*] @tail: > $($tail)*)
);
(@stack[Diff, $($stack:ident,)*] @queue[$($queue:ident,)*] @tail: > $($tail:tt)*) => (
    __op_internal__!(@stack[$($stack,)*] @queue[Diff, $($queue,)*] @tail: > $($tail)*)
);
(@stack[Shleft, $($stack:ident,)*] @queue[$($queue:ident,)*] @tail: > $($tail:tt)*) => (
    __op_internal__!(@stack[$($stack,)*] @queue[Shleft, $($queue,)*] @tail: > $($tail)*)
);
(@stack[Shright, $($stack:ident,)*] @queue[$($queue:ident,)*] @tail: > $($tail:tt)*) => (
    __op_internal__!(@stack[$($stack,)*] @queue[Shright, $($queue,)*] @tail: > $($tail)*)
);
(@stack[And, $($stack:ident,)*] @queue[$($queue:ident,)*] @tail: > $($tail:tt)*) => (
    __op_internal__!(@stack[$($stack,)*] @queue[And, $($queue,)*] @tail: > $($tail)*)
);
(@stack[Xor, $($stack:ident,)*] @queue[$($queue:ident,)*] @tail: > $($tail:tt)*) => (
    __op_internal__!(@stack[$($stack,)*] @queue[Xor, $($queue,)*] @tail: > $($tail)*)
);
(@stack[Or, $($stack:ident,)*] @queue[$($queue:ident,)*] @tail: > $($tail:tt)*) => (
    __op_internal__!(@stack[$($stack,)*] @queue[Or, $($queue,)*] @tail: > $($tail)*)
);
(@stack[Eq, $($stack:ident,)*] @queue[$($queue:ident,)*] @tail: > $($tail:tt)*) => (
    __op_internal__!(@stack[$($stack,)*] @queue[Eq, $($queue,)*] @tail: > $($tail)*)
);
(@stack[NotEq, $($stack:ident,)*] @queue[$($queue:ident,)*] @tail: > $($tail:tt)*) => (
    __op_internal__!(@stack[$($stack,)*] @queue[NotEq, $($queue,)*] @tail: > $($tail)*)
);
(@stack[LeEq, $($stack:ident,)*] @queue[$($queue:ident,)*] @tail: > $($tail:tt)*) => (
    __op_internal__!(@stack[$($stack,)*] @queue[LeEq, $($queue,)*] @tail: > $($tail)*)
);
(@stack[GrEq, $($stack:ident,)*] @queue[$($queue:ident,)*] @tail: > $($tail:tt)*) => (
    __op_internal__!(@stack[$($stack,)*] @queue[GrEq, $($queue,)*] @tail: > $($tail)*)
);
(@stack[Le, $($stack:ident,)*] @queue[$($queue:ident,)*] @tail: > $($tail:tt)*) => (
    __op_internal__!(@stack[$($stack,)*] @queue[Le, $($queue,)*] @tail: > $($tail)*)
);
(@stack[Gr, $($stack:ident,)*] @queue[$($queue:ident,)*] @tail: > $($tail:tt)*) => (
    __op_internal__!(@stack[$($stack,)*] @queue[Gr, $($queue,)*] @tail: > $($tail)*)
);
(@stack[$($stack:ident,)*] @queue[$($queue:ident,)*] @tail: > $($tail:tt)*) => (
    __op_internal__!(@stack[Gr, $($stack,)*] @queue[$($queue,)*] @tail: $($tail)*)
);
(@stack[$($stack:ident,)*] @queue[$($queue:ident,)*] @tail: ( $($stuff:tt)* ) $($tail:tt)* )
 => (
    __op_internal__!(@stack[LParen, $($stack,)*] @queue[$($queue,)*]
                     @tail: $($stuff)* RParen $($tail)*)
);
(@stack[LParen, $($stack:ident,)*] @queue[$($queue:ident,)*] @tail: RParen $($tail:tt)*) => (
    __op_internal__!(@rp3 @stack[$($stack,)*] @queue[$($queue,)*] @tail: $($tail)*)
);
(@stack[$stack_top:ident, $($stack:ident,)*] @queue[$($queue:ident,)*] @tail: RParen $($tail:tt)*)
 => (
    __op_internal__!(@stack[$($stack,)*] @queue[$stack_top, $($queue,)*] @tail: RParen $($tail)*)
);
(@rp3 @stack[Compare, $($stack:ident,)*] @queue[$($queue:ident,)*] @tail: $($tail:tt)*) => (
    __op_internal__!(@stack[$($stack,)*] @queue[Compare, $($queue,)*] @tail: $($tail)*)
);
(@rp3 @stack[Square, $($stack:ident,)*] @queue[$($queue:ident,)*] @tail: $($tail:tt)*) => (
    __op_internal__!(@stack[$($stack,)*] @queue[Square, $($queue,)*] @tail: $($tail)*)
);
(@rp3 @stack[Sqrt, $($stack:ident,)*] @queue[$($queue:ident,)*] @tail: $($tail:tt)*) => (
    __op_internal__!(@stack[$($stack,)*] @queue[Sqrt, $($queue,)*] @tail: $($tail)*)
);
(@rp3 @stack[AbsVal, $($stack:ident,)*] @queue[$($queue:ident,)*] @tail: $($tail:tt)*) => (
    __op_internal__!(@stack[$($stack,)*] @queue[AbsVal, $($queue,)*] @tail: $($tail)*)
);
(@rp3 @stack[Cube, $($stack:ident,)*] @queue[$($queue:ident,)*] @tail: $($tail:tt)*) => (
    __op_internal__!(@stack[$($stack,)*] @queue[Cube, $($queue,)*] @tail: $($tail)*)
);
(@rp3 @stack[Exp, $($stack:ident,)*] @queue[$($queue:ident,)*] @tail: $($tail:tt)*) => (
    __op_internal__!(@stack[$($stack,)*] @queue[Exp, $($queue,)*] @tail: $($tail)*)
);
(@rp3 @stack[Minimum, $($stack:ident,)*] @queue[$($queue:ident,)*] @tail: $($tail:tt)*) => (
    __op_internal__!(@stack[$($stack,)*] @queue[Minimum, $($queue,)*] @tail: $($tail)*)
);
(@rp3 @stack[Maximum, $($stack:ident,)*] @queue[$($queue:ident,)*] @tail: $($tail:tt)*) => (
    __op_internal__!(@stack[$($stack,)*] @queue[Maximum, $($queue,)*] @tail: $($tail)*)
);
(@rp3 @stack[Log2, $($stack:ident,)*] @queue[$($queue:ident,)*] @tail: $($tail:tt)*) => (
    __op_internal__!(@stack[$($stack,)*] @queue[Log2, $($queue,)*] @tail: $($tail)*)
);
(@rp3 @stack[Gcf, $($stack:ident,)*] @queue[$($queue:ident,)*] @tail: $($tail:tt)*) => (
    __op_internal__!(@stack[$($stack,)*] @queue[Gcf, $($queue,)*] @tail: $($tail)*)
);
(@rp3 @stack[$($stack:ident,)*] @queue[$($queue:ident,)*] @tail: $($tail:tt)*) => (
    __op_internal__!(@stack[$($stack,)*] @queue[$($queue,)*] @tail: $($tail)*)
);
(@stack[$($stack:ident,)*] @queue[$($queue:ident,)*] @tail: $num:ident $($tail:tt)*) => (
    __op_internal__!(@stack[$($stack,)*] @queue[$num, $($queue,)*] @tail: $($tail)*)
);
(@stack[] @queue[$($queue:ident,)*] @tail: ) => (
    __op_internal__!(@reverse[] @input: $($queue,)*)
);
(@stack[$stack_top:ident, $($stack:ident,)*] @queue[$($queue:ident,)*] @tail:) => (
    __op_internal__!(@stack[$($stack,)*] @queue[$stack_top, $($queue,)*] @tail: )
);
(@reverse[$($revved:ident,)*] @input: $head:ident, $($tail:ident,)* ) => (
    __op_internal__!(@reverse[$head, $($revved,)*] @input: $($tail,)*)
);
(@reverse[$($revved:ident,)*] @input: ) => (
    __op_internal__!(@eval @stack[] @input[$($revved,)*])
);
(@eval @stack[$a:ty, $b:ty, $($stack:ty,)*] @input[Prod, $($tail:ident,)*]) => (
    __op_internal__!(@eval @stack[$crate::Prod<$b, $a>, $($stack,)*] @input[$($tail,)*])
);
(@eval @stack[$a:ty, $b:ty, $($stack:ty,)*] @input[Quot, $($tail:ident,)*]) => (
    __op_internal__!(@eval @stack[$crate::Quot<$b, $a>, $($stack,)*] @input[$($tail,)*])
);
(@eval @stack[$a:ty, $b:ty, $($stack:ty,)*] @input[Mod, $($tail:ident,)*]) => (
    __op_internal__!(@eval @stack[$crate::Mod<$b, $a>, $($stack,)*] @input[$($tail,)*])
);
(@eval @stack[$a:ty, $b:ty, $($stack:ty,)*] @input[Sum, $($tail:ident,)*]) => (
    __op_internal__!(@eval @stack[$crate::Sum<$b, $a>, $($stack,)*] @input[$($tail,)*])
);
(@eval @stack[$a:ty, $b:ty, $($stack:ty,)*] @input[Diff, $($tail:ident,)*]) => (
    __op_internal__!(@eval @stack[$crate::Diff<$b, $a>, $($stack,)*] @input[$($tail,)*])
);
(@eval @stack[$a:ty, $b:ty, $($stack:ty,)*] @input[Shleft, $($tail:ident,)*]) => (
    __op_internal__!(@eval @stack[$crate::Shleft<$b, $a>, $($stack,)*] @input[$($tail,)*])
);
(@eval @stack[$a:ty, $b:ty, $($stack:ty,)*] @input[Shright, $($tail:ident,)*]) => (
    __op_internal__!(@eval @stack[$crate::Shright<$b, $a>, $($stack,)*] @input[$($tail,)*])
);
(@eval @stack[$a:ty, $b:ty, $($stack:ty,)*] @input[And, $($tail:ident,)*]) => (
    __op_internal__!(@eval @stack[$crate::And<$b, $a>, $($stack,)*] @input[$($tail,)*])
);
(@eval @stack[$a:ty, $b:ty, $($stack:ty,)*] @input[Xor, $($tail:ident,)*]) => (
    __op_internal__!(@eval @stack[$crate::Xor<$b, $a>, $($stack,)*] @input[$($tail,)*])
);
(@eval @stack[$a:ty, $b:ty, $($stack:ty,)*] @input[Or, $($tail:ident,)*]) => (
    __op_internal__!(@eval @stack[$crate::Or<$b, $a>, $($stack,)*] @input[$($tail,)*])
);
(@eval @stack[$a:ty, $b:ty, $($stack:ty,)*] @input[Eq, $($tail:ident,)*]) => (
    __op_internal__!(@eval @stack[$crate::Eq<$b, $a>, $($stack,)*] @input[$($tail,)*])
);
(@eval @stack[$a:ty, $b:ty, $($stack:ty,)*] @input[NotEq, $($tail:ident,)*]) => (
    __op_internal__!(@eval @stack[$crate::NotEq<$b, $a>, $($stack,)*] @input[$($tail,)*])
);
(@eval @stack[$a:ty, $b:ty, $($stack:ty,)*] @input[LeEq, $($tail:ident,)*]) => (
    __op_internal__!(@eval @stack[$crate::LeEq<$b, $a>, $($stack,)*] @input[$($tail,)*])
);
(@eval @stack[$a:ty, $b:ty, $($stack:ty,)*] @input[GrEq, $($tail:ident,)*]) => (
    __op_internal__!(@eval @stack[$crate::GrEq<$b, $a>, $($stack,)*] @input[$($tail,)*])
);
(@eval @stack[$a:ty, $b:ty, $($stack:ty,)*] @input[Le, $($tail:ident,)*]) => (
    __op_internal__!(@eval @stack[$crate::Le<$b, $a>, $($stack,)*] @input[$($tail,)*])
);
(@eval @stack[$a:ty, $b:ty, $($stack:ty,)*] @input[Gr, $($tail:ident,)*]) => (
    __op_internal__!(@eval @stack[$crate::Gr<$b, $a>, $($stack,)*] @input[$($tail,)*])
);
(@eval @stack[$a:ty, $b:ty, $($stack:ty,)*] @input[Compare, $($tail:ident,)*]) => (
    __op_internal__!(@eval @stack[$crate::Compare<$b, $a>, $($stack,)*] @input[$($tail,)*])
);
(@eval @stack[$a:ty, $b:ty, $($stack:ty,)*] @input[Exp, $($tail:ident,)*]) => (
    __op_internal__!(@eval @stack[$crate::Exp<$b, $a>, $($stack,)*] @input[$($tail,)*])
);
(@eval @stack[$a:ty, $b:ty, $($stack:ty,)*] @input[Minimum, $($tail:ident,)*]) => (
    __op_internal__!(@eval @stack[$crate::Minimum<$b, $a>, $($stack,)*] @input[$($tail,)*])
);
(@eval @stack[$a:ty, $b:ty, $($stack:ty,)*] @input[Maximum, $($tail:ident,)*]) => (
    __op_internal__!(@eval @stack[$crate::Maximum<$b, $a>, $($stack,)*] @input[$($tail,)*])
);
(@eval @stack[$a:ty, $b:ty, $($stack:ty,)*] @input[Gcf, $($tail:ident,)*]) => (
    __op_internal__!(@eval @stack[$crate::Gcf<$b, $a>, $($stack,)*] @input[$($tail,)*])
);
(@eval @stack[$a:ty, $($stack:ty,)*] @input[Square, $($tail:ident,)*]) => (
    __op_internal__!(@eval @stack[$crate::Square<$a>, $($stack,)*] @input[$($tail,)*])
);
(@eval @stack[$a:ty, $($stack:ty,)*] @input[Sqrt, $($tail:ident,)*]) => (
    __op_internal__!(@eval @stack[$crate::Sqrt<$a>, $($stack,)*] @input[$($tail,)*])
);
(@eval @stack[$a:ty, $($stack:ty,)*] @input[AbsVal, $($tail:ident,)*]) => (
    __op_internal__!(@eval @stack[$crate::AbsVal<$a>, $($stack,)*] @input[$($tail,)*])
);
(@eval @stack[$a:ty, $($stack:ty,)*] @input[Cube, $($tail:ident,)*]) => (
    __op_internal__!(@eval @stack[$crate::Cube<$a>, $($stack,)*] @input[$($tail,)*])
);
(@eval @stack[$a:ty, $($stack:ty,)*] @input[Log2, $($tail:ident,)*]) => (
    __op_internal__!(@eval @stack[$crate::Log2<$a>, $($stack,)*] @input[$($tail,)*])
);
(@eval @stack[$($stack:ty,)*] @input[$head:ident, $($tail:ident,)*]) => (
    __op_internal__!(@eval @stack[$head, $($stack,)*] @input[$($tail,)*])
);
(@eval @stack[$stack:ty,] @input[]) => (
    $stack
);
($($tail:tt)* ) => (
    __op_internal__!(@stack[] @queue[] @tail: $($tail)*)
);
}